"""C15 — string and character procedures index by character over all of Unicode."""
import os, sys, resource
import gen_coq
import common as C

PID = "C15"
# only the five theorems that mention integer->char / make-string: their number conversions have a Float
# arm (f64 floor/trunc) and Flocq's definitions of those carry the standard library's real-number axioms
ALLOWED_AXIOMS = ["ClassicalDedekindReals.sig_not_dec", "ClassicalDedekindReals.sig_forall_dec",
                  "FunctionalExtensionality.functional_extensionality_dep", "Classical_Prop.classic"]
PROFILES = ["debug", "release"]
CORRESPONDENCE = "marwood/src/vm/builtin/string.rs + char.rs (through Vm::eval) vs Model/Str.v (through Model/WireStr.v)"
RULE = ("operation sequences of length <= 10 over a pool of 1-4 strings (length 0-8, 1-,2-,3-,4-byte characters, "
        "empty strings, sigma / multi-character case expansions), 47 procedures + aliasing, results optionally stored back "
        "into the pool; indices drawn from -1..len+1 of the string's current length and far beyond (2^31, 2^63, 2^64, "
        "bignums, rationals, floats), set/fill characters of every byte width, integers across the surrogate range and "
        "above 0x10FFFF, wrong types and arities; result and the written form of every pool entry compared after every "
        "operation; plus the table-driven builtins on code points (quick: 0..0x3000, the cased/astral blocks, the "
        "surrogate and 0x10FFFF boundaries, a random sample of blocks; thorough: all 0x110000). "
        "non-trivial = a sequence in which at least one index/range/mutating operation succeeded on a string holding "
        "a multi-byte character; distinct by case hash")
ASSUMPTIONS = [
    "Unicode classification and case-mapping tables are oracle data dumped from the Rust std the harness is built with "
    "(coq/Gen/CaseTables.v); the Final_Sigma classes are recovered from str::to_lowercase by probing",
    "std str::to_lowercase is modelled from its source (per-character mapping + Final_Sigma rule); str comparison is "
    "bytewise on UTF-8 (proved equal to code-point order)",
    "memory exhaustion (make-string with an enormous size) is outside the model",
    "arity conventions of marwood (string->vector / vector->string take one argument, comparison predicates accept one "
    "argument), list->string on an improper list, ASCII-only folding of char-ci comparisons and ASCII-only digit-value "
    "are modelled but not part of the claim",
]
TRUSTED_BASE = ["harness/src/area_str.rs dump_tables + lib/gen_coq.py case_tables (table translator)"]
KERNEL_SAMPLE = {"quick": 200, "thorough": 2000}
MANIFEST = dict(
    text="Coq theorems over a hand-written model of builtin/string.rs and builtin/char.rs (byte offsets computed as the Rust "
         "computes them, explicit Panic for off-boundary slices and usize underflow): every procedure refines a "
         "vector-of-scalars specification (string-ref/set!/fill!/copy/->list by character index for replacement characters of "
         "any byte width, errors exactly on invalid indices/ranges/scalars, no panic), str ordering on UTF-8 bytes = "
         "lexicographic order on scalar values; tied to /repo by operation sequences over a string pool run through Vm::eval "
         "(debug and release) against the extracted model and vm_compute, with an independent Python list-of-code-points oracle.",
    design="DESIGN.md section 5 C15",
    note="Trusted: Coq kernel, the hand-written model (tied by differential correspondence, sampling), Unicode tables taken "
         "from Rust's std as oracle data (regenerated every run, exhaustively compared through the VM builtins in the thorough "
         "tier), extraction+OCaml driver (cross-checked in-kernel on a sub-sample), Rust harness, Python oracle. Repaired in "
         "/repo: usize underflows (F3), range validation order (F14), zero-argument string/string-append. Not claimed: "
         "list->string on improper lists, char-ci beyond ASCII, digit-value beyond ASCII, optional range arguments of "
         "string->vector/vector->string. Axioms: 38 theorems are closed under the global context; the 5 about "
         "integer->char and make-string report ClassicalDedekindReals.sig_not_dec, ClassicalDedekindReals.sig_forall_dec, "
         "FunctionalExtensionality.functional_extensionality_dep and Classical_Prop.classic, which come with Flocq's "
         "definitions of f64 floor/trunc used by the Float arm of Number::is_integer/to_u32 (no axiom is used by the string "
         "theorems themselves). No OPEN statement.",
    technique="Rocq/Coq proof (refinement of byte-offset code to lists of scalars) + model/implementation correspondence check")

# coqc parses the kernel cross-check's long list literals recursively: give the children stack
try:
    _soft, _hard = resource.getrlimit(resource.RLIMIT_STACK)
    _want = 1 << 30
    if _soft != resource.RLIM_INFINITY and _soft < _want:
        resource.setrlimit(resource.RLIMIT_STACK, (_want if _hard == resource.RLIM_INFINITY else min(_want, _hard), _hard))
except (ValueError, OSError):
    pass

OPS = ["%alias", "string-length", "string-ref", "string-set!", "string-copy", "substring", "string-fill!", "string->list",
       "string->vector", "vector->string", "list->string", "string", "make-string", "string-append",
       "string=?", "string<?", "string>?", "string<=?", "string>=?",
       "string-ci=?", "string-ci<?", "string-ci>?", "string-ci<=?", "string-ci>=?",
       "string-upcase", "string-downcase", "string-foldcase", "char->integer", "integer->char",
       "char-alphabetic?", "char-numeric?", "char-whitespace?", "char-upper-case?", "char-lower-case?",
       "char-upcase", "char-downcase", "char-foldcase", "digit-value",
       "char=?", "char<?", "char>?", "char<=?", "char>=?",
       "char-ci=?", "char-ci<?", "char-ci>?", "char-ci<=?", "char-ci>=?"]
OPID = {n: i for i, n in enumerate(OPS)}

# --------------------------------------------------------------------------- tables
_T = {}


def tables():
    """std's tables, from the dump cached beside the harness executable"""
    if _T:
        return _T
    exe = os.path.join(C.HARNESS, "target", "debug", "mwh")
    cache = exe + ".tables"
    line = ""
    if os.path.exists(cache):
        line = open(cache).read().partition("\n")[2].strip()
    if not line.startswith("TABLES "):
        import subprocess
        line = subprocess.run([exe], input="39\n", stdout=subprocess.PIPE, text=True).stdout.strip()
    preds, maps = gen_coq.parse_tables_line(line)
    for name, rs in preds.items():
        s = set()
        for lo, hi in rs:
            s.update(range(lo, hi + 1))
        _T[name] = s
    _T["lower"], _T["upper"] = maps["lower"], maps["upper"]
    return _T


def to_lower_char(c):
    return tables()["lower"].get(c, [c])


def to_upper_char(c):
    return tables()["upper"].get(c, [c])


def _ignorable_then_cased(seq):
    T = tables()
    for c in seq:
        if c in T["ignorable"]:
            continue
        return c in T["cased"]
    return False


def str_lower(t):
    out = []
    for i, c in enumerate(t):
        if c == 0x3A3:
            final = _ignorable_then_cased(reversed(t[:i])) and not _ignorable_then_cased(t[i + 1:])
            out.append(0x3C2 if final else 0x3C3)
        else:
            out += to_lower_char(c)
    return out


def str_upper(t):
    return [x for c in t for x in to_upper_char(c)]


# --------------------------------------------------------------------------- values
# oracle values: int | ("float", bits) | ("rat", n, d) | ("big", n) | ("char", c) | bool | ("str", id)
#                | ("list", [v], tail) | ("vec", [v]) | ("void",) | ("lit", [cp])
VOID = ("void",)


def is_scalar(c):
    return 0 <= c < 0xD800 or 0xDFFF < c < 0x110000


def is_control(c):
    return c < 32 or 127 <= c <= 159


def write_char(c):
    if c == 32:
        return "#\\space"
    if c == 10:
        return "#\\newline"
    if is_control(c):
        return "#\\x%x" % c
    return "#\\" + chr(c)


_SESC = {34: '\\"', 92: "\\\\", 9: "\\t", 10: "\\n", 13: "\\r", 27: "\\e", 7: "\\a", 8: "\\b", 11: "\\v", 12: "\\f"}


def write_str(t):
    o = ['"']
    for c in t:
        if c in _SESC:
            o.append(_SESC[c])
        elif is_control(c):
            o.append("\\x%x;" % c)
        else:
            o.append(chr(c))
    o.append('"')
    return "".join(o)


def write_val(v, store):
    if v is True:
        return "#t"
    if v is False:
        return "#f"
    if isinstance(v, int):
        return str(v)
    k = v[0]
    if k == "char":
        return write_char(v[1])
    if k == "str":
        return write_str(store[v[1]])
    if k == "lit":
        return write_str(v[1])
    if k == "big":
        return str(v[1])
    if k == "void":
        return "#<void>"
    if k == "list":
        items = [write_val(x, store) for x in v[1]]
        if v[2] is None:
            return "(" + " ".join(items) + ")"
        if not items:
            return write_val(v[2], store)
        return "(" + " ".join(items) + " . " + write_val(v[2], store) + ")"
    if k == "vec":
        return "#(" + " ".join(write_val(x, store) for x in v[1]) + ")"
    return "?"


def esc2(s):
    o = []
    for ch in s:
        c = ord(ch)
        if 32 <= c <= 126 and c not in (92, 124, 59):
            o.append(ch)
        else:
            o.append("\\u{%x}" % c)
    return "".join(o)


# --------------------------------------------------------------------------- wire codec
def enc_datum(v):
    if v is True or v is False:
        return [9, 1 if v else 0]
    if isinstance(v, int):
        return [1, 1 if v < 0 else 0, abs(v)]
    k = v[0]
    if k == "big":
        return [6, 1 if v[1] < 0 else 0, abs(v[1])]
    if k == "float":
        return [7, v[1]]
    if k == "rat":
        return [8, 1 if v[1] < 0 else 0, abs(v[1]), v[2]]
    if k == "char":
        return [2, v[1]]
    if k == "lit":
        return [10, len(v[1])] + list(v[1])
    if k == "vec":
        return [4, len(v[1])] + [x for it in v[1] for x in enc_datum(it)]
    if k == "list":
        body = [x for it in v[1] for x in enc_datum(it)]
        if v[2] is None:
            return [3, len(v[1])] + body
        return [5, len(v[1])] + body + enc_datum(v[2])
    raise ValueError(v)


def enc_arg(a):
    if isinstance(a, tuple) and a[0] == "pool":
        return [0, a[1]]
    return enc_datum(a)


def encode(pool, ops):
    c = [30, len(pool)]
    for t in pool:
        c += [len(t)] + list(t)
    for op, dest, args in ops:
        c += [op, dest, len(args)]
        for a in args:
            c += enc_arg(a)
    return c


class Bad(Exception):
    pass


def dec_datum(c, i):
    def need(n):
        if i + n > len(c):
            raise Bad()
    need(1)
    k = c[i]
    if k == 1:
        need(3)
        z = -c[i + 2] if c[i + 1] == 1 else c[i + 2]
        return z, i + 3
    if k == 6:
        need(3)
        return ("big", -c[i + 2] if c[i + 1] == 1 else c[i + 2]), i + 3
    if k == 2:
        need(2)
        return ("char", c[i + 1]), i + 2
    if k == 7:
        need(2)
        return ("float", c[i + 1]), i + 2
    if k == 8:
        need(4)
        return ("rat", -c[i + 2] if c[i + 1] == 1 else c[i + 2], c[i + 3]), i + 4
    if k == 9:
        need(2)
        return (c[i + 1] != 0), i + 2
    if k == 10:
        need(2)
        n = c[i + 1]
        need(2 + n)
        return ("lit", list(c[i + 2:i + 2 + n])), i + 2 + n
    if k in (3, 4, 5):
        need(2)
        n, j, items = c[i + 1], i + 2, []
        if n > 64:
            raise Bad()
        for _ in range(n):
            v, j = dec_datum(c, j)
            items.append(v)
        if k == 3:
            return ("list", items, None), j
        if k == 4:
            return ("vec", items), j
        tl, j = dec_datum(c, j)
        return ("list", items, tl), j
    raise Bad()


def decode(case):
    """-> (pool, ops) or None"""
    try:
        if case[0] != 30:
            return None
        n, i, pool = case[1], 2, []
        for _ in range(n):
            ln = case[i]
            pool.append(list(case[i + 1:i + 1 + ln]))
            if len(pool[-1]) != ln:
                return None
            i += 1 + ln
        ops = []
        while i < len(case):
            op, dest, nargs = case[i], case[i + 1], case[i + 2]
            i += 3
            args = []
            for _ in range(nargs):
                if case[i] == 0:
                    args.append(("pool", case[i + 1]))
                    i += 2
                else:
                    v, i = dec_datum(case, i)
                    args.append(v)
            ops.append((op, dest, args))
        return pool, ops
    except (Bad, IndexError):
        return None


# --------------------------------------------------------------------------- the oracle model
class Err(Exception):
    pass


DONTCARE = object()


def exact_int(v):
    """the exact integer a number denotes, else None (floats are inexact)"""
    if isinstance(v, bool):
        return None
    if isinstance(v, int):
        return v
    if isinstance(v, tuple):
        if v[0] == "big":
            return v[1]
        if v[0] == "rat" and v[2] == 1:
            return v[1]
    return None


def float_val(bits):
    import struct
    return struct.unpack("<d", struct.pack("<Q", bits))[0]


class Oracle:
    """R7RS semantics over a store of lists of code points"""

    def __init__(self, pool):
        self.store = {}
        self.pool = []
        for t in pool:
            self.pool.append(self.new(t))

    def new(self, t):
        i = len(self.store)
        self.store[i] = list(t)
        return ("str", i)

    def val(self, a):
        """argument -> value (a literal string is a fresh object)"""
        if isinstance(a, tuple) and a[0] == "pool":
            if a[1] >= len(self.pool):
                raise Bad()
            return self.pool[a[1]]
        return self.lit(a)

    def lit(self, a):
        if isinstance(a, tuple):
            if a[0] == "lit":
                return self.new(a[1])
            if a[0] == "list":
                return ("list", [self.lit(x) for x in a[1]], None if a[2] is None else self.lit(a[2]))
            if a[0] == "vec":
                return ("vec", [self.lit(x) for x in a[1]])
        return a

    # argument classes
    def s(self, v):
        if isinstance(v, tuple) and v[0] == "str":
            return self.store[v[1]]
        raise Err("not a string")

    def ch(self, v):
        if isinstance(v, tuple) and v[0] == "char":
            return v[1]
        raise Err("not a char")

    def index(self, v):
        if isinstance(v, bool) or not (isinstance(v, int) or (isinstance(v, tuple) and v[0] in ("big", "rat", "float"))):
            raise Err("not a number")
        k = exact_int(v)
        if k is None or k < 0:
            raise Err("not an exact non-negative integer")
        return k

    def rng(self, t, rest):
        start = self.index(rest[0]) if len(rest) > 0 else 0
        end = self.index(rest[1]) if len(rest) > 1 else len(t)
        if not (0 <= start <= end <= len(t)):
            raise Err("invalid range")
        return start, end

    def arity(self, args, lo, hi):
        if len(args) < lo or (hi is not None and len(args) > hi):
            raise Err("arity")

    def apply(self, name, args):
        A = self.arity
        if name == "string-length":
            A(args, 1, 1)
            return len(self.s(args[0]))
        if name == "string-ref":
            A(args, 2, 2)
            k, t = self.index(args[1]), self.s(args[0])
            if k >= len(t):
                raise Err("index")
            return ("char", t[k])
        if name == "string-set!":
            A(args, 3, 3)
            c, k, t = self.ch(args[2]), self.index(args[1]), self.s(args[0])
            if k >= len(t):
                raise Err("index")
            t[k] = c
            return VOID
        if name in ("string-copy", "substring", "string->list"):
            if name == "substring":
                A(args, 3, 3)
            else:
                A(args, 1, 3)
            for x in args[1:]:
                self.index(x)
            t = self.s(args[0])
            a, b = self.rng(t, args[1:])
            if name == "string->list":
                return ("list", [("char", c) for c in t[a:b]], None)
            return self.new(t[a:b])
        if name == "string-fill!":
            A(args, 2, 4)
            for x in args[2:]:
                self.index(x)
            c, t = self.ch(args[1]), self.s(args[0])
            a, b = self.rng(t, args[2:])
            t[a:b] = [c] * (b - a)
            return VOID
        if name == "string->vector":
            A(args, 1, 1)
            return ("vec", [("char", c) for c in self.s(args[0])])
        if name == "vector->string":
            A(args, 1, 1)
            v = args[0]
            if not (isinstance(v, tuple) and v[0] == "vec"):
                raise Err("not a vector")
            return self.new([self.ch(x) for x in v[1]])
        if name == "list->string":
            A(args, 1, 1)
            v = args[0]
            if not (isinstance(v, tuple) and v[0] == "list"):
                raise Err("not a list")
            if v[2] is not None:
                if not v[1]:
                    raise Err("not a list")
                for x in v[1]:
                    self.ch(x)
                return DONTCARE          # improper list: marwood accepts it silently, R7RS says error
            return self.new([self.ch(x) for x in v[1]])
        if name == "string":
            return self.new([self.ch(x) for x in args])
        if name == "make-string":
            A(args, 1, 2)
            c = self.ch(args[1]) if len(args) == 2 else 0
            k = self.index(args[0])
            if k > 64:
                return DONTCARE
            return self.new([c] * k)
        if name == "string-append":
            return self.new([c for x in args for c in self.s(x)])
        if name.startswith("string") and name.endswith("?"):
            A(args, 1, None)
            ts = [self.s(x) for x in args]
            ci = "-ci" in name
            if ci:
                ts = [str_lower(t) for t in ts]
            rel = name[len("string-ci" if ci else "string"):-1]
            return all(_REL[rel](ts[i], ts[i + 1]) for i in range(len(ts) - 1))
        if name in ("string-upcase", "string-downcase", "string-foldcase"):
            A(args, 1, 1)
            t = self.s(args[0])
            return self.new(str_upper(t) if name == "string-upcase" else str_lower(t))
        if name == "char->integer":
            A(args, 1, 1)
            return self.ch(args[0])
        if name == "integer->char":
            A(args, 1, 1)
            v = args[0]
            if isinstance(v, bool):
                raise Err("not a number")
            k = exact_int(v)
            if k is None:
                if isinstance(v, tuple) and v[0] == "float":
                    f = float_val(v[1])
                    if f != f or f in (float("inf"), float("-inf")) or f != int(f):
                        raise Err("not an integer")
                    k = int(f)
                else:
                    raise Err("not an integer")
            if not is_scalar(k):
                raise Err("not a scalar value")
            return ("char", k)
        T = tables()
        if name in _PRED:
            A(args, 1, 1)
            return self.ch(args[0]) in T[_PRED[name]]
        if name in ("char-upcase", "char-downcase", "char-foldcase"):
            A(args, 1, 1)
            c = self.ch(args[0])
            m = to_upper_char(c) if name == "char-upcase" else to_lower_char(c)
            return ("char", m[0] if len(m) == 1 else c)
        if name == "digit-value":
            A(args, 1, 1)
            c = self.ch(args[0])
            if 48 <= c <= 57:
                return c - 48
            if c < 128:
                return False
            return DONTCARE              # non-ASCII decimal digits: marwood answers #f (not claimed)
        if name.startswith("char") and name.endswith("?"):
            A(args, 1, None)
            cs = [self.ch(x) for x in args]
            ci = "-ci" in name
            if ci:
                if any(c >= 128 for c in cs):
                    return DONTCARE      # ASCII-only folding (not claimed)
                cs = [c + 32 if 65 <= c <= 90 else c for c in cs]
            rel = name[len("char-ci" if ci else "char"):-1]
            return all(_REL[rel](cs[i], cs[i + 1]) for i in range(len(cs) - 1))
        raise Bad()


_REL = {"=": lambda a, b: a == b, "<": lambda a, b: a < b, ">": lambda a, b: a > b,
        "<=": lambda a, b: a <= b, ">=": lambda a, b: a >= b}
_PRED = {"char-alphabetic?": "alphabetic", "char-numeric?": "numeric", "char-whitespace?": "whitespace",
         "char-upper-case?": "uppercase", "char-lower-case?": "lowercase"}


def step(o, op, dest, args):
    """apply one wire operation to the oracle state; returns the expected record head
    ("OK <text>" | "ERR") or DONTCARE"""
    try:
        vals = [o.val(a) for a in args]
        if op == 0:
            r = vals[0]
        else:
            r = o.apply(OPS[op], vals)
    except Err:
        return "ERR"
    if r is DONTCARE:
        return DONTCARE
    if dest:
        o.pool[dest - 1] = r
    return "OK " + esc2(write_val(r, o.store))


def expected_pool(o):
    return [esc2(write_val(v, o.store)) for v in o.pool]


_MEMO = {}


def oracle(case, impl_line):
    key = (id(case), len(case), impl_line)
    if key in _MEMO:
        return _MEMO[key]
    r = _oracle(case, impl_line)
    if len(_MEMO) > 2000000:
        _MEMO.clear()
    _MEMO[key] = r
    return r


def _oracle(case, impl_line):
    if case[0] == 31:
        return oracle_chars(case, impl_line)
    d = decode(case)
    if d is None:
        return None if impl_line == "BADCASE" else "malformed: undecodable case answered %r" % impl_line[:60]
    pool, ops = d
    if not impl_line.startswith("SEQ "):
        return "malformed: unexpected result line %r" % impl_line[:80]
    recs = impl_line[4:].split(" | ")
    o = Oracle(pool)
    for k, (op, dest, args) in enumerate(ops):
        if k >= len(recs):
            return "malformed: %d operations but %d records" % (len(ops), len(recs))
        fields = recs[k].split(" ; ")
        head = fields[0]
        what = "operation %d %s" % (k, OPS[op])
        if head == "PANIC":
            return "panic: %s panicked" % what
        try:
            exp = step(o, op, dest, args)
        except Bad:
            return None
        if exp is DONTCARE:
            return None                   # outside the claim: stop judging this sequence
        if exp != head:
            if exp == "ERR":
                return "missing-error: %s must report an error, answered %s" % (what, head[:60])
            if head == "ERR":
                return "spurious-error: %s is valid (expected %s) but an error was reported" % (what, exp[:60])
            return "wrong-result: %s answered %s, the vector-of-scalars model gives %s" % (what, head[:60], exp[:60])
        ep = expected_pool(o)
        if fields[1:] != ep:
            for i, (a, b) in enumerate(zip(fields[1:], ep)):
                if a != b:
                    return "wrong-contents: after %s pool string %d is %s, the vector-of-scalars model gives %s" % (
                        what, i, a[:60], b[:60])
            return "malformed: pool size"
    return None


def char_record(u):
    """expected record of interface 31 for a scalar value (None where not claimed)"""
    T = tables()
    o = Oracle([])
    ch = ("char", u)

    def f(name, *a):
        r = o.apply(name, list(a))
        return None if r is DONTCARE else r
    s = lambda cs: o.new(cs)
    rec = [f("integer->char", u), f("char->integer", ch)]
    rec += [f(n, ch) for n in ("char-alphabetic?", "char-numeric?", "char-whitespace?", "char-upper-case?",
                               "char-lower-case?", "char-upcase", "char-downcase", "char-foldcase", "digit-value")]
    rec += [f("string-upcase", s([u])), f("string-downcase", s([u])), f("string-foldcase", s([65, 0x3A3, u])),
            f("string-downcase", s([65, 0x3A3, u, 65])), f("string-downcase", s([u, 0x3A3]))]
    return [None if r is None else esc2(write_val(r, o.store)) for r in rec]


def oracle_chars(case, impl_line):
    lo, n = case[1], case[2]
    if not impl_line.startswith("CH"):
        return "malformed: unexpected result line %r" % impl_line[:80]
    line, pos = impl_line, 2
    for u in range(lo, lo + n):
        if not is_scalar(u):
            if not line.startswith(" ERR", pos):
                return "missing-error: (integer->char %d) must report an error, answered %s" % (u, line[pos:pos + 40])
            pos += 4
            continue
        if not line.startswith(" (", pos):
            return "wrong-result: code point U+%04X: no record (%s)" % (u, line[pos:pos + 40])
        pos += 2
        exp = char_record(u)
        for k, e in enumerate(exp):
            if e is None:
                # a field outside the claim (digit-value of a non-ASCII character): #f or a number
                m = pos
                while m < len(line) and line[m] not in " )":
                    m += 1
                pos = m + 1
                continue
            if not line.startswith(e, pos) or line[pos + len(e):pos + len(e) + 1] not in (" ", ")"):
                return "wrong-result: code point U+%04X field %d (%s): expected %s, got %s" % (
                    u, k, CH_FIELDS[k], e[:40], line[pos:pos + 40])
            pos += len(e) + 1
    if pos != len(line):
        return "malformed: trailing text %r" % line[pos:pos + 40]
    return None


CH_FIELDS = ["integer->char", "char->integer", "char-alphabetic?", "char-numeric?", "char-whitespace?", "char-upper-case?",
             "char-lower-case?", "char-upcase", "char-downcase", "char-foldcase", "digit-value", "string-upcase",
             "string-downcase", "string-foldcase A-sigma-c", "string-downcase A-sigma-c-A", "string-downcase c-sigma"]


_MEMO_NT = {}


def nontrivial(case, impl_line):
    key = (id(case), len(case), impl_line)
    if key not in _MEMO_NT:
        if len(_MEMO_NT) > 2000000:
            _MEMO_NT.clear()
        _MEMO_NT[key] = _nontrivial(case, impl_line)
    return _MEMO_NT[key]


def _nontrivial(case, impl_line):
    if case[0] == 31:
        return case[1] + case[2] > 128
    d = decode(case)
    if d is None or not impl_line.startswith("SEQ "):
        return False
    pool, ops = d
    recs = impl_line[4:].split(" | ")
    o = Oracle(pool)
    hit = False
    for k, (op, dest, args) in enumerate(ops):
        if k >= len(recs):
            break
        wide = False
        if 2 <= op <= 7 and args and isinstance(args[0], tuple) and args[0][0] == "pool" and args[0][1] < len(o.pool):
            v = o.pool[args[0][1]]
            wide = isinstance(v, tuple) and v[0] == "str" and any(c >= 128 for c in o.store[v[1]])
        try:
            r = step(o, op, dest, args)
        except Bad:
            break
        if r is DONTCARE:
            break
        if wide and recs[k].startswith("OK"):
            hit = True
    return hit


# --------------------------------------------------------------------------- generator
W1 = [0x61, 0x41, 0x7A, 0x30, 0x39, 0x20, 0x22, 0x5C, 0x7C, 0x3B, 0x0A, 0x00, 0x7F, 0x28]
W2 = [0xE9, 0x3BB, 0x3A3, 0x3C3, 0x3C2, 0xDF, 0x130, 0x131, 0x149, 0x2BC, 0x300, 0xAD, 0x80, 0x7FF, 0x660, 0x1C5]
W3 = [0x800, 0x20AC, 0x4E2D, 0xFB03, 0x1E9E, 0x1F88, 0x2028, 0xD7FF, 0xE000, 0xFFFD, 0xFFFF, 0x2160, 0x0E33]
W4 = [0x10000, 0x1F436, 0x1F600, 0x10400, 0x10428, 0x1E900, 0x1D7D8, 0xE0001, 0x10FFFF]
WIDTHS = [W1, W2, W3, W4]
BIG_INTS = [1 << 31, (1 << 31) - 1, 1 << 32, (1 << 32) - 1, (1 << 63) - 1, 1 << 63, (1 << 64) - 1, 1 << 64, (1 << 64) + 1, 1 << 70,
            -(1 << 63), -(1 << 63) - 1]
SCALAR_EDGES = [0, 0x7F, 0x80, 0x7FF, 0x800, 0xD7FF, 0xD800, 0xD801, 0xDBFF, 0xDC00, 0xDFFF, 0xE000, 0xFFFF, 0x10000,
                0x10FFFF, 0x110000, 0x110001, 0x1FFFFF, 0xFFFFFFFF, 0x100000000, -1]


def rchar(rng):
    r = rng.random()
    if r < 0.9:
        return rng.choice(WIDTHS[rng.choice([0, 0, 1, 2, 3])])
    while True:
        c = rng.randrange(0x110000)
        if is_scalar(c):
            return c


def rtext(rng, maxlen=8):
    n = rng.choice([0, 0, 1, 1, 2, 3, 3, 4, 5, 6, maxlen])
    return [rchar(rng) for _ in range(n)]


def as_num(rng, k):
    """an integer in a random representation"""
    r = rng.random()
    if r < 0.8 and -(1 << 63) <= k < (1 << 63):
        return k
    if r < 0.9 or not (-(1 << 63) <= k < (1 << 63)):
        return ("big", k)
    if r < 0.95 and abs(k) <= 0x7FFFFFFF:
        return ("rat", k, 1)
    import struct
    try:
        return ("float", struct.unpack("<Q", struct.pack("<d", float(k)))[0])
    except OverflowError:
        return ("big", k)


def rindex(rng, ln):
    r = rng.random()
    if r < 0.72:
        return as_num(rng, rng.randint(-1, ln + 1))
    if r < 0.8:
        return as_num(rng, rng.randint(0, max(0, ln)))
    if r < 0.86:
        return as_num(rng, ln + rng.randint(2, 6))
    if r < 0.93:
        return as_num(rng, rng.choice(BIG_INTS))
    if r < 0.96:
        d = rng.choice([2, 3])
        return ("rat", rng.randint(-3, 7) * d + 1, d)
    return ("float", rng.choice([0x3FF0000000000000, 0x4000000000000000, 0x3FE0000000000000, 0x7FF0000000000000,
                                 0x7FF8000000000000, 0x8000000000000000, 0]))


def rscalar_int(rng):
    r = rng.random()
    if r < 0.35:
        return as_num(rng, rng.choice(SCALAR_EDGES) + rng.randint(-1, 1))
    if r < 0.55:
        return as_num(rng, rng.randint(0xD7F0, 0xE010))
    if r < 0.7:
        return as_num(rng, rng.randint(0x10FFF0, 0x110010))
    if r < 0.9:
        return as_num(rng, rng.randrange(0x110000))
    if r < 0.95:
        return as_num(rng, rng.choice(BIG_INTS))
    return ("float", rng.choice([0x4050400000000000, 0x4050480000000000, 0x40EB000000000000, 0x7FF0000000000000,
                                 0x7FF8000000000000, 0x8000000000000000, 0x41F0000000000000, 0xC000000000000000]))


def wrong(rng):
    return rng.choice([True, 7, ("char", 0x61), ("lit", [0x78]), ("list", [], None), ("vec", []), ("float", 0x3FF8000000000000)])


def gen_seq(rng, nops_max=10):
    pool = [rtext(rng) for _ in range(rng.randint(1, 4))]
    o = Oracle(pool)
    ops = []
    P = len(pool)

    def strs():
        return [i for i, v in enumerate(o.pool) if isinstance(v, tuple) and v[0] == "str"]

    def pstr():
        ss = strs()
        if ss and rng.random() < 0.97:
            return ("pool", rng.choice(ss))
        if rng.random() < 0.5:
            return ("lit", rtext(rng, 4))
        return ("pool", rng.randrange(P))

    def plen(a):
        try:
            return len(o.s(o.val(a))) if a[0] == "pool" else len(a[1])
        except Exception:
            return 0

    for _ in range(rng.randint(1, nops_max)):
        r = rng.random()
        dest = 0
        if r < 0.14:
            s = pstr()
            name, args = "string-ref", [s, rindex(rng, plen(s))]
        elif r < 0.32:
            s = pstr()
            name, args = "string-set!", [s, rindex(rng, plen(s)), ("char", rchar(rng))]
        elif r < 0.46:
            s = pstr()
            ln = plen(s)
            name = rng.choice(["string-copy", "string-copy", "substring", "string->list"])
            na = 2 if name == "substring" else rng.choice([0, 1, 2, 2])
            args = [s] + [rindex(rng, ln) for _ in range(na)]
            if na == 2 and rng.random() < 0.5:
                a, b = sorted([rng.randint(0, ln), rng.randint(0, ln)])
                args = [s, as_num(rng, a), as_num(rng, b)]
            if rng.random() < (0.25 if name == "string->list" else 0.5):
                dest = rng.randint(1, P)
        elif r < 0.60:
            s = pstr()
            ln = plen(s)
            na = rng.choice([0, 1, 2, 2])
            args = [s, ("char", rchar(rng))] + [rindex(rng, ln) for _ in range(na)]
            if na == 2 and rng.random() < 0.5:
                a, b = sorted([rng.randint(0, ln), rng.randint(0, ln)])
                args = args[:2] + [as_num(rng, a), as_num(rng, b)]
            name = "string-fill!"
        elif r < 0.64:
            name, args = "string-length", [pstr()]
        elif r < 0.68:
            name, args = rng.choice(["string->vector", "string->list"]), [pstr()]
            if rng.random() < 0.7:
                dest = rng.randint(1, P)
        elif r < 0.72:
            items = [("char", rchar(rng)) for _ in range(rng.randint(0, 5))]
            if rng.random() < 0.1 and items:
                items[rng.randrange(len(items))] = wrong(rng)
            if rng.random() < 0.5:
                name, args = "vector->string", [("vec", items)]
            else:
                tail = None
                if rng.random() < 0.06:
                    tail = rng.choice([("char", 0x61), 5, ("lit", [])])
                name, args = "list->string", [("list", items, tail)]
            # a vector / list that an earlier string->vector / string->list left in the pool
            held = [i for i, v in enumerate(o.pool)
                    if isinstance(v, tuple) and v[0] == ("vec" if name == "vector->string" else "list")]
            if held and rng.random() < 0.9:
                args = [("pool", rng.choice(held))]
            if tail_free(args[0]) and rng.random() < 0.6:
                dest = rng.randint(1, P)
        elif r < 0.76:
            name, args = "string", [("char", rchar(rng)) for _ in range(rng.randint(0, 5))]
            if rng.random() < 0.6:
                dest = rng.randint(1, P)
        elif r < 0.79:
            name = "make-string"
            # never a size between 65 and 2^64-1: the implementation would really allocate it
            size = rng.choice([as_num(rng, rng.randint(-1, 6)), as_num(rng, rng.randint(0, 6)), as_num(rng, rng.randint(0, 6)),
                               ("rat", 5, 2), ("float", 0x4000000000000000), ("big", 1 << 64), ("big", -(1 << 64)), -5])
            args = [size] + ([("char", rchar(rng))] if rng.random() < 0.7 else [])
            if len(args) == 2 and rng.random() < 0.5:
                dest = rng.randint(1, P)
        elif r < 0.83:
            name, args = "string-append", [pstr() for _ in range(rng.randint(0, 4))]
            if rng.random() < 0.6:
                dest = rng.randint(1, P)
        elif r < 0.89:
            ci = rng.random() < 0.4
            name = "string" + ("-ci" if ci else "") + rng.choice(["=", "<", ">", "<=", ">="]) + "?"
            args = [pstr() for _ in range(rng.choice([1, 2, 2, 2, 3, 4]))]
            if rng.random() < 0.3:
                # near-equal strings: a copy of the first with one character changed / case flipped
                base = plen(args[0])
                try:
                    t = list(o.s(o.val(args[0]))) if args[0][0] == "pool" else list(args[0][1])
                except Exception:
                    t = []
                if t:
                    i = rng.randrange(len(t))
                    t[i] = rng.choice([rchar(rng), to_upper_char(t[i])[0], to_lower_char(t[i])[0], t[i]])
                if rng.random() < 0.3:
                    t = t[:rng.randint(0, len(t))]
                args[-1] = ("lit", t[:60])
        elif r < 0.92:
            name, args = rng.choice(["string-upcase", "string-downcase", "string-foldcase"]), [pstr()]
            if rng.random() < 0.6:
                dest = rng.randint(1, P)
        elif r < 0.95:
            if rng.random() < 0.7:
                name, args = "integer->char", [rscalar_int(rng)]
            else:
                name, args = "char->integer", [("char", rchar(rng))]
        elif r < 0.975:
            name = rng.choice(["char-alphabetic?", "char-numeric?", "char-whitespace?", "char-upper-case?", "char-lower-case?",
                               "char-upcase", "char-downcase", "char-foldcase", "digit-value"])
            args = [("char", rchar(rng))]
        elif r < 0.99:
            ci = rng.random() < 0.3
            name = "char" + ("-ci" if ci else "") + rng.choice(["=", "<", ">", "<=", ">="]) + "?"
            cs = [rchar(rng) for _ in range(rng.choice([1, 2, 2, 3, 4]))]
            if ci:
                cs = [rng.choice(W1 + [0x5A, 0x5B, 0x60, 0x7B, 0x40]) for _ in cs]
            if len(cs) > 1 and rng.random() < 0.3:
                cs[1] = cs[0]
            args = [("char", c) for c in cs]
        else:
            ss = strs()
            name, args, dest = "%alias", [("pool", rng.choice(ss) if ss else 0)], rng.randint(1, P)
        # perturbations: wrong type, dropped/extra argument
        q = rng.random()
        if name != "%alias":
            if q < 0.03 and args:
                args[rng.randrange(len(args))] = wrong(rng)
            elif q < 0.045 and args:
                args.pop(rng.randrange(len(args)))
            elif q < 0.06:
                args.append(rng.choice([wrong(rng), as_num(rng, 1), ("char", 0x61)]))
        op = OPID[name]
        try:
            res = step(o, op, dest, args)
        except Bad:
            continue
        if res is DONTCARE:
            dest = 0
        ops.append((op, dest, args))
        if res is DONTCARE:
            break
    return encode(pool, ops)


def tail_free(v):
    return not (isinstance(v, tuple) and v[0] == "list" and v[2] is not None)


def lit_seq(pool, *ops):
    return encode([[ord(c) for c in s] for s in pool], [(OPID[n], d, a) for n, d, a in ops])


def corpus():
    P0, P1 = ("pool", 0), ("pool", 1)
    ch = lambda c: ("char", ord(c))
    out = [
        # the defect witnesses of DESIGN 7.1 F3 / F14 and section 5 C15
        lit_seq(["", "abc"], ("string-ref", 0, [P0, 0]), ("string-set!", 0, [P0, 0, ch("x")]), ("string-ref", 0, [P1, 3])),
        lit_seq(["abc"], ("string-fill!", 0, [P0, ch("x"), 4]), ("string-fill!", 0, [P0, ch("x"), 3]), ("string-fill!", 0, [P0, ch("x"), 5, 5])),
        lit_seq(["abc"], ("string-copy", 0, [P0, 3, 5]), ("string-copy", 0, [P0, 7, 7]), ("string-copy", 0, [P0, 3, 3]),
                ("string-copy", 0, [P0, 3]), ("string-copy", 0, [P0, 4])),
        lit_seq(["abc"], ("string-fill!", 0, [P0, ch("x"), 3, 5])),
        lit_seq(["abc"], ("string->list", 0, [P0, 3, 5]), ("string->list", 0, [P0, 7, 7]), ("substring", 0, [P0, 2, 1])),
        lit_seq([""], ("string-copy", 0, [P0, 0, 0]), ("string-copy", 0, [P0, 1]), ("string-fill!", 0, [P0, ch("x"), 1]),
                ("string->list", 0, [P0, 0, 1])),
        lit_seq(["a"], ("string", 1, []), ("string-append", 1, []), ("string-length", 0, [P0])),
        # width-changing replacement
        lit_seq(["aλ\U0001F436z", ""], ("string-set!", 0, [P0, 1, ch("\U0001F600")]), ("string-set!", 0, [P0, 2, ch("x")]),
                ("string-set!", 0, [P0, 0, ch("€")]), ("string-ref", 0, [P0, 3]), ("string-fill!", 0, [P0, ch("é"), 1, 3]),
                ("string-copy", 2, [P0, 1, 3]), ("string-length", 0, [P1])),
        lit_seq(["€€"], ("%alias", 1, [P0]), ("string-set!", 0, [P0, 1, ch("a")])),
        # sigma
        lit_seq(["AΣ", "ΣA", "AΣ'", "A­Σ̀ b"], ("string-downcase", 0, [P0]), ("string-downcase", 0, [P1]),
                ("string-downcase", 0, [("pool", 2)]), ("string-downcase", 0, [("pool", 3)]), ("string-ci=?", 0, [P0, ("lit", [0x61, 0x3C3])]),
                ("string-upcase", 0, [("lit", [0xDF, 0xFB03, 0x149])])),
        lit_seq([""], ("integer->char", 0, [0xD800]), ("integer->char", 0, [0xDFFF]), ("integer->char", 0, [0x110000]),
                ("integer->char", 0, [0x10FFFF]), ("integer->char", 0, [-1]), ("integer->char", 0, [("big", 1 << 64)]),
                ("integer->char", 0, [("float", 0x4050400000000000)]), ("integer->char", 0, [("rat", 65, 1)])),
        lit_seq(["￿", "\U00010000"], ("string<?", 0, [P0, P1]), ("string>?", 0, [P0, P1]), ("string=?", 0, [P0, P0, P1])),
    ]
    out += [[31, 0xD7F0, 0x30], [31, 0x10FFF0, 0x20], [31, 0x390, 0x40], [31, 0x110000, 1]]
    return out


CH_BLOCK = 32


def char_cases(rng, tier):
    if tier == "thorough":
        return [[31, lo, CH_BLOCK] for lo in range(0, 0x110000, CH_BLOCK)] + [[31, 0x110000, 16]]
    blocks = set(range(0, 0x3000, CH_BLOCK))
    for lo0 in (0xA600, 0xA700, 0xAB00, 0xD700, 0xD800, 0xDF00, 0xE000, 0xFB00, 0xFE00, 0xFF00, 0x10400, 0x10500, 0x10C00,
               0x118A0 & ~255, 0x16E00, 0x1D400, 0x1D700, 0x1E900, 0x1F100, 0xE0000, 0x10FF00):
        blocks.update(range(lo0, lo0 + 256, CH_BLOCK))
    while len(blocks) < 1200:
        blocks.add(rng.randrange(0x110000 // CH_BLOCK) * CH_BLOCK)
    return [[31, lo, CH_BLOCK] for lo in sorted(blocks)] + [[31, 0x110000, 16]]


def generate(rng, tier):
    tables()
    n = 20000 if tier == "quick" else 500000
    cases = [gen_seq(rng) for _ in range(n)]
    cc = char_cases(rng, tier)
    opcount, nops, argkinds = {}, 0, {}
    for c in cases[:20000]:
        d = decode(c)
        for op, dest, args in d[1]:
            opcount[OPS[op]] = opcount.get(OPS[op], 0) + 1
            nops += 1
    meta = {"sequences": n, "char_table_cases": len(cc), "exhaustive": tier == "thorough",
            "exhaustive_domain": "all 0x110000 code points for the table-driven builtins (interface 31)" if tier == "thorough" else
                                 "interface 31 on %d blocks of %d code points" % (len(cc) - 1, CH_BLOCK),
            "mean_ops_per_sequence_sample": round(nops / max(1, min(n, 20000)), 2),
            "ops_in_first_20000_sequences": opcount}
    return cases + cc, meta


# --------------------------------------------------------------------------- reporting helpers
def show_arg(a):
    if isinstance(a, tuple) and a[0] == "pool":
        return "s%d" % a[1]
    if a is True or a is False or isinstance(a, int):
        return write_val(a, {})
    k = a[0]
    if k == "big":
        return "%d" % a[1]
    if k == "rat":
        return "%d/%d" % (a[1], a[2])
    if k == "float":
        return "%r" % float_val(a[1])
    if k == "lit":
        return write_str(a[1])
    if k == "char":
        return write_char(a[1])
    if k == "vec":
        return "(vector " + " ".join(show_arg(x) for x in a[1]) + ")"
    if k == "list":
        if a[2] is None:
            return "(list " + " ".join(show_arg(x) for x in a[1]) + ")"
        return "(cons* " + " ".join(show_arg(x) for x in a[1] + [a[2]]) + ")"
    return "?"


def describe(case):
    if case[0] == 31:
        return {"iface": "table builtins", "from": "U+%04X" % case[1], "count": case[2]}
    d = decode(case)
    if d is None:
        return {"undecodable": True}
    pool, ops = d
    prog = []
    for op, dest, args in ops:
        e = show_arg(args[0]) if op == 0 else "(" + " ".join([OPS[op]] + [show_arg(a) for a in args]) + ")"
        prog.append("(define s%d %s)" % (dest - 1, e) if dest else e)
    return {"pool": {"s%d" % i: write_str(t) for i, t in enumerate(pool)}, "ops": prog}


def reductions(case):
    if case[0] == 31:
        lo, n = case[1], case[2]
        if n > 1:
            yield [31, lo, n // 2]
            yield [31, lo + n // 2, n - n // 2]
        return
    d = decode(case)
    if d is None:
        return
    pool, ops = d
    for i in range(len(ops)):
        yield encode(pool, ops[:i] + ops[i + 1:])
    for i in range(len(ops)):
        if ops[i][1]:
            yield encode(pool, ops[:i] + [(ops[i][0], 0, ops[i][2])] + ops[i + 1:])
    # plain fixnums instead of bignum / rational / float spellings of the same integer
    for i, (op, dest, args) in enumerate(ops):
        for j, a in enumerate(args):
            k = exact_int(a) if isinstance(a, tuple) else None
            if k is not None and -(1 << 63) <= k < (1 << 63):
                yield encode(pool, ops[:i] + [(op, dest, args[:j] + [k] + args[j + 1:])] + ops[i + 1:])
    for k, t in enumerate(pool):
        for j in range(len(t)):
            yield encode(pool[:k] + [t[:j] + t[j + 1:]] + pool[k + 1:], ops)
        for j, c in enumerate(t):
            if c != 0x61:
                yield encode(pool[:k] + [t[:j] + [0x61] + t[j + 1:]] + pool[k + 1:], ops)


def neighbours(case, rng):
    if case[0] == 31:
        return []
    d = decode(case)
    if d is None:
        return []
    pool, ops = d
    out = []
    for _ in range(40):
        ops2 = []
        for op, dest, args in ops:
            args2 = []
            for a in args:
                if isinstance(a, int) and not isinstance(a, bool) and rng.random() < 0.5:
                    a = max(-1, a + rng.randint(-2, 2))
                elif isinstance(a, tuple) and a[0] == "char" and rng.random() < 0.5:
                    a = ("char", rchar(rng))
                args2.append(a)
            ops2.append((op, dest, args2))
        pool2 = [[rchar(rng) if rng.random() < 0.3 else c for c in t] for t in pool]
        out.append(encode(pool2, ops2))
    return out
