"""An independent statement of R7RS 4.3.2 (syntax-rules): reader/printer for the data the
C17 generator uses, pattern validation, matching (first matching rule, literals by name,
underscore, one ellipsis per list level with a fixed tail, dotted and vector patterns),
and template instantiation (structural; an ellipsis iterates its sub-template over the
items of the ellipsis variables it contains).  Non-hygienic: expansions are observed under
quote, where the renaming hygiene would add is not observable.

Written from the report's text, not from marwood's code or the Coq model."""


class Sym:
    __slots__ = ("name",)

    def __init__(self, name):
        self.name = name

    def __repr__(self):
        return "Sym(%r)" % self.name

    def __eq__(self, o):
        return isinstance(o, Sym) and o.name == self.name

    def __hash__(self):
        return hash(("sym", self.name))


class Dot:
    """improper list: items (non-empty) and a tail that is not a list"""
    __slots__ = ("items", "tail")

    def __init__(self, items, tail):
        self.items, self.tail = list(items), tail

    def __repr__(self):
        return "Dot(%r, %r)" % (self.items, self.tail)


class Vec:
    __slots__ = ("items",)

    def __init__(self, items):
        self.items = list(items)

    def __repr__(self):
        return "Vec(%r)" % (self.items,)


class ReadError(Exception):
    pass


def mk_dotted(items, tail):
    if isinstance(tail, list):
        return list(items) + tail
    if isinstance(tail, Dot):
        return Dot(list(items) + tail.items, tail.tail)
    if not items:
        return tail
    return Dot(items, tail)


# ------------------------------------------------------------------ printer
def show(x):
    if isinstance(x, bool):
        return "#t" if x else "#f"
    if isinstance(x, int):
        return str(x)
    if isinstance(x, Sym):
        return x.name
    if isinstance(x, tuple) and x[0] == "str":
        return '"' + x[1].replace("\\", "\\\\").replace('"', '\\"') + '"'
    if isinstance(x, list):
        return "(" + " ".join(show(y) for y in x) + ")"
    if isinstance(x, Dot):
        return "(" + " ".join(show(y) for y in x.items) + " . " + show(x.tail) + ")"
    if isinstance(x, Vec):
        return "#(" + " ".join(show(y) for y in x.items) + ")"
    raise ValueError(x)


# ------------------------------------------------------------------- reader
DELIM = set(" \t\n\r()[]{}\";'")


def read(s):
    pos = [0]

    def ws():
        while pos[0] < len(s) and s[pos[0]] in " \t\n\r":
            pos[0] += 1

    def datum():
        ws()
        if pos[0] >= len(s):
            raise ReadError("eof")
        c = s[pos[0]]
        if c in "([{":
            pos[0] += 1
            return seq(False)
        if c == "#" and s[pos[0]:pos[0] + 2] == "#(":
            pos[0] += 2
            return seq(True)
        if c == "'":
            pos[0] += 1
            return [Sym("quote"), datum()]
        if c == "`":
            pos[0] += 1
            return [Sym("quasiquote"), datum()]
        if c == ",":
            pos[0] += 1
            return [Sym("unquote"), datum()]
        if c == '"':
            pos[0] += 1
            out = []
            while True:
                if pos[0] >= len(s):
                    raise ReadError("eof in string")
                ch = s[pos[0]]
                pos[0] += 1
                if ch == '"':
                    break
                if ch == "\\":
                    ch = s[pos[0]]
                    pos[0] += 1
                    ch = {"n": "\n", "t": "\t"}.get(ch, ch)
                out.append(ch)
            return ("str", "".join(out))
        if c in ")]}":
            raise ReadError("unexpected )")
        j = pos[0]
        while j < len(s) and s[j] not in DELIM:
            j += 1
        tok = s[pos[0]:j]
        pos[0] = j
        if tok in ("#t", "#true"):
            return True
        if tok in ("#f", "#false"):
            return False
        try:
            return int(tok)
        except ValueError:
            pass
        if tok.startswith("#"):
            raise ReadError("unsupported token " + tok)
        return Sym(tok)

    def seq(vec):
        items = []
        while True:
            ws()
            if pos[0] >= len(s):
                raise ReadError("eof in list")
            if s[pos[0]] in ")]}":
                pos[0] += 1
                return Vec(items) if vec else items
            if (not vec) and s[pos[0]] == "." and pos[0] + 1 < len(s) and s[pos[0] + 1] in DELIM:
                pos[0] += 1
                tail = datum()
                ws()
                if pos[0] >= len(s) or s[pos[0]] not in ")]}":
                    raise ReadError("bad dotted tail")
                pos[0] += 1
                return mk_dotted(items, tail)
            items.append(datum())

    d = datum()
    ws()
    if pos[0] != len(s):
        raise ReadError("trailing text")
    return d


def unesc(t):
    out, i = [], 0
    while i < len(t):
        if t.startswith("\\u{", i):
            j = t.index("}", i)
            out.append(chr(int(t[i + 3:j], 16)))
            i = j + 1
        else:
            out.append(t[i])
            i += 1
    return "".join(out)


def equal(a, b):
    if isinstance(a, bool) or isinstance(b, bool):
        return isinstance(a, bool) and isinstance(b, bool) and a == b
    if isinstance(a, int) or isinstance(b, int):
        return isinstance(a, int) and isinstance(b, int) and a == b
    if isinstance(a, Sym) or isinstance(b, Sym):
        return a == b
    if isinstance(a, tuple) or isinstance(b, tuple):
        return isinstance(a, tuple) and isinstance(b, tuple) and a == b
    if isinstance(a, list) or isinstance(b, list):
        return (isinstance(a, list) and isinstance(b, list) and len(a) == len(b)
                and all(equal(x, y) for x, y in zip(a, b)))
    if isinstance(a, Dot) or isinstance(b, Dot):
        return (isinstance(a, Dot) and isinstance(b, Dot) and equal(a.items, b.items) and equal(a.tail, b.tail))
    if isinstance(a, Vec) or isinstance(b, Vec):
        return isinstance(a, Vec) and isinstance(b, Vec) and equal(a.items, b.items)
    return False


def shrinks(x):
    if isinstance(x, list):
        for i in range(len(x)):
            yield x[:i] + x[i + 1:]
        for i in range(len(x)):
            for s in shrinks(x[i]):
                yield x[:i] + [s] + x[i + 1:]
    elif isinstance(x, Dot):
        yield list(x.items)
        for s in shrinks(x.items):
            if s:
                yield Dot(s, x.tail)
    elif isinstance(x, Vec):
        yield list(x.items)
    elif isinstance(x, Sym) or isinstance(x, tuple):
        yield 1


# --------------------------------------------------------- R7RS 4.3.2: patterns
class Invalid(Exception):
    pass


class Excluded(Exception):
    """ellipsis variables of one sub-template matched different numbers of items"""


class One:
    __slots__ = ("form",)

    def __init__(self, form):
        self.form = form


class Many:
    __slots__ = ("items",)

    def __init__(self, items):
        self.items = items


def is_sym(x, name=None):
    return isinstance(x, Sym) and (name is None or x.name == name)


class Rules:
    def __init__(self, ell, lits):
        self.ell, self.lits = ell, lits
        self.zero_tail = False

    def is_ell(self, x):
        # a literal named like the ellipsis is a literal
        return isinstance(x, Sym) and x.name == self.ell and self.ell not in self.lits

    # ---- split a sequence of sub-patterns / sub-templates at its ellipsis
    def split(self, items, what):
        """-> (before, repeated or None, after); at most one ellipsis, which follows an element"""
        idx = [i for i, x in enumerate(items) if self.is_ell(x)]
        if not idx:
            return items, None, []
        if len(idx) > 1:
            raise Invalid("more than one ellipsis in one %s list" % what)
        i = idx[0]
        if i == 0:
            raise Invalid("ellipsis follows nothing")
        return items[:i - 1], items[i - 1], items[i + 1:]

    def pattern_vars(self, p, depth, out):
        if isinstance(p, Sym):
            if p.name in self.lits or p.name == "_":
                return
            if self.is_ell(p):
                raise Invalid("ellipsis out of place in a pattern")
            if p.name in out:
                raise Invalid("duplicate pattern variable " + p.name)
            out[p.name] = depth
            return
        if isinstance(p, (list, Vec, Dot)):
            items = p if isinstance(p, list) else p.items
            before, rep, after = self.split(items, "pattern")
            for x in before:
                self.pattern_vars(x, depth, out)
            if rep is not None:
                self.pattern_vars(rep, depth + 1, out)
            for x in after:
                self.pattern_vars(x, depth, out)
            if isinstance(p, Dot):
                if self.is_ell(p.tail):
                    raise Invalid("ellipsis in the tail of a pattern")
                self.pattern_vars(p.tail, depth, out)

    def vars_of(self, p):
        out = {}
        self.pattern_vars(p, 0, out)
        return out

    def match(self, p, f):
        """dict var -> One/Many, or None"""
        if isinstance(p, Sym):
            if p.name in self.lits:
                return {} if is_sym(f, p.name) else None
            if p.name == "_":
                return {}
            return {p.name: One(f)}
        if isinstance(p, list) or isinstance(p, Dot):
            pitems = p if isinstance(p, list) else p.items
            ptail = p.tail if isinstance(p, Dot) else None
            if isinstance(f, list):
                fitems, ftail = f, []
            elif isinstance(f, Dot):
                fitems, ftail = f.items, f.tail
            else:
                fitems, ftail = [], f
            before, rep, after = self.split(pitems, "pattern")
            need = len(before) + len(after)
            if len(fitems) < need:
                return None
            if rep is None and ptail is None and len(fitems) != need:
                return None
            env = {}
            for x, y in zip(before, fitems):
                m = self.match(x, y)
                if m is None:
                    return None
                env.update(m)
            if rep is not None:
                nrep = len(fitems) - need
                if nrep == 0 and after:
                    self.zero_tail = True      # an ellipsis with a fixed tail matched zero items
                ms = []
                for y in fitems[len(before):len(before) + nrep]:
                    m = self.match(rep, y)
                    if m is None:
                        return None
                    ms.append(m)
                for v in self.vars_of(rep):
                    env[v] = Many([m[v] for m in ms])
                rest = fitems[len(before) + nrep:]
            else:
                nrep = 0
                rest = fitems[len(before):]
            for x, y in zip(after, rest):
                m = self.match(x, y)
                if m is None:
                    return None
                env.update(m)
            rest = rest[len(after):]
            if ptail is None:
                # a proper-list pattern matches proper lists only
                if rest or not (isinstance(ftail, list) and not ftail):
                    return None
                return env
            m = self.match(ptail, mk_dotted(rest, ftail))
            if m is None:
                return None
            env.update(m)
            return env
        if isinstance(p, Vec):
            if not isinstance(f, Vec):
                return None
            return self.match(list(p.items), list(f.items))
        return {} if equal(p, f) else None

    # ---- templates
    def tvars(self, t, pvars, out):
        if isinstance(t, Sym):
            if t.name in pvars:
                out.add(t.name)
        elif isinstance(t, list):
            for x in t:
                self.tvars(x, pvars, out)
        elif isinstance(t, (Dot, Vec)):
            for x in t.items:
                self.tvars(x, pvars, out)
            if isinstance(t, Dot):
                self.tvars(t.tail, pvars, out)

    def inst_seq(self, items, env):
        out = []
        i = 0
        if items and self.is_ell(items[0]):
            raise Invalid("(... ...) escapes are not part of the supported syntax")
        while i < len(items):
            t = items[i]
            if self.is_ell(t):
                raise Invalid("ellipsis follows nothing in a template")
            if i + 1 < len(items) and self.is_ell(items[i + 1]):
                if i + 2 < len(items) and self.is_ell(items[i + 2]):
                    raise Invalid("consecutive ellipses are not part of the supported syntax")
                used = set()
                self.tvars(t, env, used)
                drivers = [v for v in sorted(used) if isinstance(env[v], Many)]
                if not drivers:
                    raise Invalid("ellipsis after a sub-template without ellipsis variables")
                lens = {len(env[v].items) for v in drivers}
                if len(lens) > 1:
                    raise Excluded()
                for k in range(lens.pop()):
                    e2 = dict(env)
                    for v in drivers:
                        e2[v] = env[v].items[k]
                    out.append(self.inst(t, e2))
                i += 2
            else:
                out.append(self.inst(t, env))
                i += 1
        return out

    def inst(self, t, env):
        if isinstance(t, Sym):
            if t.name in env:
                b = env[t.name]
                if isinstance(b, Many):
                    raise Invalid("ellipsis variable %s used without enough ellipses" % t.name)
                return b.form
            return t
        if isinstance(t, list):
            return self.inst_seq(t, env)
        if isinstance(t, Dot):
            if self.is_ell(t.tail):
                raise Invalid("ellipsis in the tail of a template")
            return mk_dotted(self.inst_seq(t.items, env), self.inst(t.tail, env))
        if isinstance(t, Vec):
            return Vec(self.inst_seq(t.items, env))
        return t


def parse_definition(d):
    """-> (keyword, Rules, [(pattern, template)]) or raises Invalid"""
    if not (isinstance(d, list) and len(d) == 3 and is_sym(d[0], "define-syntax") and isinstance(d[1], Sym)):
        raise Invalid("not (define-syntax keyword spec)")
    sr = d[2]
    if not (isinstance(sr, list) and sr and is_sym(sr[0], "syntax-rules")):
        raise Invalid("not a syntax-rules spec")
    k = 1
    ell = "..."
    if len(sr) > k and isinstance(sr[k], Sym):
        ell = sr[k].name
        k += 1
    if len(sr) <= k or not isinstance(sr[k], list) or not all(isinstance(x, Sym) for x in sr[k]):
        raise Invalid("literals must be a list of identifiers")
    lits = [x.name for x in sr[k]]
    rules = []
    for r in sr[k + 1:]:
        if not (isinstance(r, list) and len(r) == 2):
            raise Invalid("a rule is (pattern template)")
        rules.append((r[0], r[1]))
    return d[1].name, Rules(ell, lits), rules


def expand_use(d, u, quoted_value=False, info=None):
    """("ok", expansion) | ("nomatch",) | ("invalid-def", why) | ("invalid-template", why) | ("excluded",)
    [info], if given, receives: rules (Rules), bodies [(pattern body, template)], selected (index or None),
    zero_tail (the selected rule matched zero items at an ellipsis followed by a fixed tail)"""
    if info is None:
        info = {}
    try:
        kw, R, rules = parse_definition(d)
        pats = []
        for p, t in rules:
            if not isinstance(p, (list, Dot)) or (isinstance(p, list) and not p):
                raise Invalid("a pattern is a list beginning with the keyword position")
            body = p[1:] if isinstance(p, list) else mk_dotted(p.items[1:], p.tail)
            pats.append((body, t))
        info["rules"], info["bodies"] = R, pats
        for body, t in pats:
            R.vars_of(body)
    except Invalid as e:
        return ("invalid-def", str(e))
    if isinstance(u, list) and u:
        ubody = u[1:]
    elif isinstance(u, Dot):
        ubody = mk_dotted(u.items[1:], u.tail)
    else:
        return ("nomatch",)
    for idx, (body, t) in enumerate(pats):
        R.zero_tail = False
        env = R.match(body, ubody)
        if env is None:
            continue
        info["selected"], info["zero_tail"] = idx, R.zero_tail
        try:
            e = R.inst(t, env)
        except Invalid as ex:
            return ("invalid-template", str(ex))
        except Excluded:
            return ("excluded",)
        if quoted_value:
            if isinstance(e, list) and len(e) == 2 and is_sym(e[0], "quote"):
                return ("ok", e[1])
            return ("not-a-quote",)
        return ("ok", e)
    return ("nomatch",)
