"""C20 — the REPL highlighter marks exactly the matching bracket and nothing else."""
import itertools
import pylex

PID = "C20"
ALLOWED_AXIOMS = []
CORRESPONDENCE = "syntax.rs ReplHighlighter::highlight / highlight_check vs Model/Highlight.v"
RULE = ("all strings over the property's 11-symbol alphabet { ( ) [ ] #( \" ; newline space a #\\( } up to a length "
        "(quick 4, thorough 5 symbols) with every cursor position 0..bytes+1, for highlight and highlight_check, "
        "plus random longer Unicode/bracket texts with random cursors (past the end, inside multi-byte characters); "
        "non-trivial = the text scans and the cursor token (or the one before) is a bracket token; distinct by case hash")
ASSUMPTIONS = ["bracket shape is not part of matching (the code and the property speak of token types only)"]
KERNEL_SAMPLE = {"quick": 300, "thorough": 3000}
MANIFEST = dict(
    text="Coq theorems over a hand-written model of syntax.rs/lex.rs: the counter scan returns exactly the stack-matching partner (both directions, arbitrary token lists), the output is the text with one escape pair around one whole token or the text unchanged, totality for every text/cursor; tied to /repo by exhaustive enumeration of the property's alphabet (quick: length<=4, thorough: <=5, every cursor) plus random Unicode, 3-way (impl / extracted model / vm_compute).",
    design="DESIGN.md section 5 C20",
    note="Trusted: Coq kernel, the hand-written model (tied by differential correspondence, sampling beyond the enumerated lengths), extraction+OCaml driver (cross-checked in-kernel on a sub-sample), Rust harness, Python oracle. Axioms: none (Closed under the global context).",
    technique="Rocq/Coq proof (induction over token lists) + model/implementation correspondence check")

ALPHA = [[40], [41], [91], [93], [35, 40], [34], [59], [10], [32], [97], [35, 92, 40]]
ESC_ON, ESC_OFF = [27, 91, 52, 109], [27, 91, 48, 109]


def u8len(cps):
    return sum(pylex.u8(c) for c in cps)


def corpus():
    out = []
    for txt, idx in [("(#(a))", 0), ("(#(a))", 5), ("(#(a))", 4), ("#(a)", 0), ("#(a)", 1), ("(a #(b) c)", 9),
                     ("#(#(a) (b))", 10), ("(\")\" a)", 7), ("(#\\( a)", 0), ("( ; )\n)", 6), ("[a)", 0)]:
        cps = [ord(c) for c in txt]
        out.append([2, idx] + cps)
        out.append([3, idx] + cps)
    return out


def generate(rng, tier):
    maxlen = 4 if tier == "quick" else 5
    cases = []
    nstrings = 0
    for n in range(0, maxlen + 1):
        for combo in itertools.product(range(len(ALPHA)), repeat=n):
            cps = [c for k in combo for c in ALPHA[k]]
            nstrings += 1
            nb = len(cps)
            for idx in range(0, nb + 2):
                cases.append([2, idx] + cps)
                cases.append([3, idx] + cps)
    nexh = len(cases)
    # random longer texts
    nrand = 20000 if tier == "quick" else 300000
    pool = [40, 41, 91, 93, 123, 125, 34, 59, 10, 32, 97, 35, 92, 39, 96, 44, 46, 49, 43, 0xe9, 0x3bb, 0x4e2d, 0x1f600, 0x85, 0xa0, 7]
    for _ in range(nrand):
        n = rng.randint(1, 40)
        cps = []
        while len(cps) < n:
            r = rng.random()
            if r < 0.5:
                cps += ALPHA[rng.randrange(len(ALPHA))]
            elif r < 0.95:
                cps.append(pool[rng.randrange(len(pool))])
            else:
                c = rng.randrange(0x110000)
                if 0xD800 <= c <= 0xDFFF:
                    c = 0x41
                cps.append(c)
        nb = u8len(cps)
        idx = rng.choice([rng.randint(0, nb), rng.randint(0, nb + 3), nb, nb + 1, 10**6])
        cases.append([rng.choice([2, 3]), idx] + cps)
    return cases, {"exhaustive": True, "exhaustive_symbols_max": maxlen, "strings_enumerated": nstrings,
                   "exhaustive_cases": nexh, "random_cases": nrand}


def _cursor_token(toks, index):
    def at(i):
        for k, t in enumerate(toks):
            if t[0] <= i < t[1]:
                return k
        return None
    k = at(index)
    if k is None and index > 0:
        k = at(index - 1)
    return k


def _partners(toks):
    """standard stack matching of bracket tokens; #( is an opening bracket"""
    st, pm = [], {}
    for k, t in enumerate(toks):
        if t[2] in ("LeftParen", "HashParen"):
            st.append(k)
        elif t[2] == "RightParen":
            if st:
                j = st.pop(); pm[j] = k; pm[k] = j
    return pm


def to_bytes(cps):
    return "".join(chr(c) for c in cps).encode("utf-8", "surrogatepass")


def expected_highlight(cps, index):
    st, toks = pylex.scan(cps)
    if st != "OK":
        return cps
    k = _cursor_token(toks, index)
    if k is None or toks[k][2] not in ("LeftParen", "RightParen", "HashParen"):
        return cps
    pm = _partners(toks)
    if k not in pm:
        return cps
    p = toks[pm[k]]
    b = to_bytes(cps)
    res = b[:p[0]] + bytes(ESC_ON) + b[p[0]:p[1]] + bytes(ESC_OFF) + b[p[1]:]
    return [ord(c) for c in res.decode("utf-8")]


def oracle(case, impl_line):
    iface, index, cps = case[0], case[1], case[2:]
    if impl_line == "PANIC" or impl_line.startswith(("ABORT", "TIMEOUT")):
        return "panic: the highlighter must not panic (%s)" % impl_line
    if not impl_line.startswith("OK "):
        return "malformed: unexpected result line %r" % impl_line[:80]
    if iface == 2:
        got = pylex.unesc(impl_line[3:])
        exp = expected_highlight(cps, index)
        if got != exp:
            if got == cps:
                return "partner-missing: text returned unchanged but the bracket at the cursor has a partner"
            return "wrong-highlight: output is not the text with one escape pair around the nesting partner"
        return None
    else:
        if impl_line[3:] == "true":
            st, toks = pylex.scan(cps)
            near = st == "OK" and any(t[2] in ("LeftParen", "RightParen", "HashParen") and t[0] - 1 <= index <= t[1] + 1
                                       for t in toks)
            if not near:
                return "check-unsound: highlight_check is true with no bracket token within one position of the cursor"
        return None


def nontrivial(case, impl_line):
    st, toks = pylex.scan(case[2:])
    if st != "OK":
        return False
    k = _cursor_token(toks, case[1] if case[0] == 2 else max(0, case[1] - 1))
    return k is not None and toks[k][2] in ("LeftParen", "RightParen", "HashParen")


def describe(case):
    return {"iface": "highlight" if case[0] == 2 else "highlight_check", "cursor": case[1],
            "text": "".join(chr(c) for c in case[2:])}


def reductions(case):
    head, cps = case[:2], case[2:]
    for i in range(len(cps)):
        yield head + cps[:i] + cps[i + 1:]
        if head[1] > 0:
            yield [head[0], head[1] - 1] + cps[:i] + cps[i + 1:]


def neighbours(case, rng):
    out = []
    cps = case[2:]
    for idx in range(0, u8len(cps) + 2):
        out.append([2, idx] + cps)
        out.append([3, idx] + cps)
    return out
