"""C19 — depth is limited by memory, not by the host's native stack.

Own flow (child processes):

 (a) PROOFS   Props/C19.v is recompiled: recursion depth of the depth-instrumented models
              (Model/Depth.v) is bounded / unbounded per pass and direction of nesting.
 (b) DEPTH CORRESPONDENCE (interfaces 110-112): the native recursion depth counters of the
              real functions (marwood/src/verif_depth.rs, cfg marwood_verif) must equal the
              model's depth on generated nested data, nesting 1..200 in every direction;
              an independent Python statement of the depth of each pass on the generated tree
              is the oracle on the implementation's own numbers.
 (c) GRID     {direction} x {operation} x {depth} x {main, 2 MiB thread} x {debug, release}:
              every scenario in an isolated child (harness binary mwdepth) under a wall-clock
              limit.  A scenario passes when the child exits normally (value or error).  Death by
              a signal is an abort; it is attributed to (function, direction) from the last
              `DEPTH <family> <n>` line the child wrote after its last `STAGE` line (stages
              without a guarded recursion: the implicit Clone / Drop of Cell).  Listed
              (function, direction) pairs are KNOWN-FINDINGs; anything else is a VIOLATION.
"""
import json, os, random, re, subprocess, sys, time
from concurrent.futures import ThreadPoolExecutor
import common as C

PID = "C19"
ALLOWED_AXIOMS = []
PROFILES = ["debug", "release"]
CORRESPONDENCE = ("native recursion depth counters (marwood/src/verif_depth.rs guards in parse.rs, vm/compile.rs, "
                  "vm/environment.rs, vm/heap.rs, vm/compare.rs, cell.rs) vs Model/Depth.v (interfaces 110 parse, "
                  "111 put_cell/get_as_cell/Display/mark/equal?, 112 transform/compile/find_free_symbols)")
RULE = ("random data built from the five shapes car nest / cdr chain / vector nest / quote chain / mixed tree with "
        "nesting 1..200 (leaves: fixnums, symbols, strings, chars, booleans, (), dotted tails), rendered to text; "
        "110 = parse depth of the text (plus truncated = incomplete texts), 111 = put/get/write/mark depth of the datum "
        "and equal? depth against itself or against a copy with one mutated leaf, 112 = transform/compile/"
        "free-symbols depth of random macro-free expressions (application, if, lambda, define, set!, quote, "
        "quasiquote/unquote nests, some malformed); non-trivial = nesting >= 3 and the implementation reported a depth "
        ">= 4 for at least one pass; distinct by case hash.  Grid: 8 directions x 7 operations x depths x 2 stacks x "
        "profiles, one child process each")
ASSUMPTIONS = [
    "the theorems are about the recursion DEPTH of the model (frames of the guarded functions); that a depth of 10^5 "
    "frames exhausts an 8 MiB / 2 MiB native stack is observed in child processes, not proved: C19 is partial in this sense",
    "depth is counted in guarded frames; unguarded helper frames in between (compile_procedure_application, "
    "mark_lambda, fmt of Box<Cell>, ...) make the real stack use per level larger, never smaller",
    "the implicit Drop and the derived Clone of Cell cannot be instrumented without changing behaviour: their depth "
    "functions (drop_depth, clone_depth) are tied to the code only by the abort scenarios of the grid",
    "compile / find_free_symbols depth functions describe a compilation that succeeds; on rejected forms the check "
    "requires implementation <= model",
    "an abort is attributed to a function from the depth trace of the child (last DEPTH line after the last STAGE line)",
]
TRUSTED_BASE = [
    "hooks marwood/src/verif_depth.rs + one guard line per recursive function (add-only, cfg(marwood_verif))",
    "harness/src/bin/mwdepth.rs (scenario construction without recursion, stage markers) and the supervision in lib/props/c19.py (exit status / signal, wall-clock limit)",
]
MANIFEST = dict(
    text="Coq theorems over depth-instrumented models of the recursive passes (parse, transform, compile/quasiquote, "
         "find_free_symbols, put_cell, get_as_cell, mark, equal?, Display, Drop/Clone of Cell): for each pass and "
         "direction of nesting (car, cdr, vector, quote chain, nested expression) either depth_bounded or "
         "depth_unbounded with a Gallina witness family, proved by induction on the nesting; tied to /repo by "
         "thread-local native recursion depth counters compared with the model on random nested data, and by a grid "
         "of isolated child processes (direction x operation x depth x stack size x profile) whose exit status is "
         "the observation.",
    design="DESIGN.md section 5 C19",
    note="PARTIAL by nature: the theorems are about recursion depth of the model; native stack exhaustion itself is "
         "OBSERVED (child process killed by SIGABRT/SIGSEGV 'stack overflow'), not proved. The property is false on the "
         "pinned tree: depth_unbounded holds for parse/put_cell/get_as_cell/mark/equal?/Display/Drop along car, for "
         "put_cell and Drop/Clone also along cdr, for transform/compile/free-symbols on nested expressions; the "
         "aborting (function, direction) pairs are open known findings (making the passes iterative is not a small "
         "fix). Also proved: get_as_cell (exactly 2k+2) and mark (at least 2k+1) through vectors nested k deep; equal? along the cdr "
         "direction uses at most 3 native frames for lists of ANY length (exactly 3 from length 2), also on improper and unequal flat lists. "
         "Quote chains (get_as_cell exactly 2j+2, equal? exactly 2j+1, mark at least j+1), equal? through vectors nested i deep (exactly 2i+1), and mark through chains of closures (at least 5k+1) and of continuations (at least 2k+1), on witness heaps laid out as the VM model builds them (instances computed by running the model), are proved unbounded. OPEN: the run loop adds no native frame per Scheme call (not modelled). Drop/Clone are not "
         "instrumented. Axioms: none declared; Print Assumptions reports the four standard-library real-number axioms "
         "for statements that mention datum/number definitions.",
    technique="Rocq/Coq proof (induction on the nesting of witness families) + depth-counter correspondence + child-process scenario grid")

DIRECTIONS = ["car", "cdr", "vector", "quote", "closure", "continuation", "nontail", "nested"]
OPERATIONS = ["read", "quote-eval", "build", "gc", "equal", "write", "drop"]
# stage -> function recursing there when the depth trace is silent (unguarded recursion)
STAGE_DEFAULT = {"eval": "clone", "drop": "drop", "eval-program": "clone"}


# ===================================================================== trees
class T:
    """a datum: ('pair', a, d) | ('vec', [..]) | ('atom', text) | ('nil',)"""


def atom(rng):
    r = rng.random()
    if r < 0.3:
        return ("atom", str(rng.choice([0, 1, 7, 42, -3, 123456789012345678901])))
    if r < 0.6:
        return ("atom", rng.choice(["a", "b", "foo", "x1", "quote", "if", "list->v"]))
    if r < 0.7:
        return ("atom", rng.choice(['"s"', '"a b"', '""', '"\\n"']))
    if r < 0.8:
        return ("atom", rng.choice(["#\\a", "#\\space", "#t", "#f"]))
    return ("nil",)


def mk_list(items, tail=("nil",)):
    out = tail
    for x in reversed(items):
        out = ("pair", x, out)
    return out


def gen_tree(rng, shape, n):
    if shape == "car":
        t = atom(rng)
        for _ in range(n):
            t = mk_list([t] + [atom(rng) for _ in range(rng.choice([0, 0, 1, 2]))])
        return t
    if shape == "cdr":
        tail = ("nil",) if rng.random() < 0.8 else ("atom", "z")
        return mk_list([atom(rng) for _ in range(max(1, n))], tail)
    if shape == "vector":
        t = atom(rng)
        for _ in range(n):
            t = ("vec", [t] + [atom(rng) for _ in range(rng.choice([0, 0, 1]))])
        return t
    if shape == "quote":
        t = atom(rng)
        q = rng.choice(["quote", "quote", "quasiquote", "unquote"])
        for _ in range(n):
            t = mk_list([("atom", q), t])
        return t
    # mixed
    def go(d):
        if d <= 0 or rng.random() < 0.15:
            return atom(rng)
        r = rng.random()
        k = rng.randint(1, 3)
        kids = [go(d - 1 if i == 0 else rng.randint(0, max(0, d - 1))) for i in range(k)]
        rng.shuffle(kids)
        if r < 0.55:
            return mk_list(kids, ("nil",) if rng.random() < 0.85 else atom(rng))
        if r < 0.8:
            return ("vec", kids)
        return mk_list([("atom", "quote"), kids[0]])
    return go(min(n, 40))


def is_quote_form(t):
    return (t[0] == "pair" and t[1] == ("atom", "quote") and t[2][0] == "pair" and t[2][2] == ("nil",))


PREFIX = {"quote": "'", "quasiquote": "`", "unquote": ","}


def render(t):
    """iterative-enough renderer (recursion depth <= nesting, Python limit raised)"""
    k = t[0]
    if k == "atom":
        return t[1]
    if k == "nil":
        return "()"
    if k == "vec":
        return "#(" + " ".join(render(x) for x in t[1]) + ")"
    parts = []
    while t[0] == "pair":
        parts.append(render(t[1]))
        t = t[2]
    s = "(" + " ".join(parts)
    if t[0] != "nil":
        s += " . " + render(t)
    return s + ")"


# -------------------------------------------- independent statement of the depths
def norm(t):
    """what the reader produces: a dotted tail that is a list is spliced (same tree)"""
    return t


def d_parse(t):
    k = t[0]
    if k in ("atom", "nil"):
        # "()" is a list: parse + parse_list
        return 2 if k == "nil" else 1
    if k == "vec":
        return 2 + max([d_parse(x) for x in t[1]] + [0])
    m = 0
    while t[0] == "pair":
        m = max(m, d_parse(t[1]))
        t = t[2]
    if t[0] != "nil":
        m = max(m, d_parse(t))
    return 2 + m


def d_put(t):           # maybe_put_cell
    k = t[0]
    if k in ("atom", "nil"):
        return 1
    if k == "vec":
        return 1 + max([d_put(x) for x in t[1]] + [0])
    return 1 + max(1 + d_put(t[1]), 1 + d_put(t[2]))


def d_drop(t):
    k = t[0]
    if k in ("atom", "nil"):
        return 1
    if k == "vec":
        return 1 + max([d_drop(x) for x in t[1]] + [0])
    return 1 + max(d_drop(t[1]), d_drop(t[2]))


def is_imm(t):
    """kept out of the heap by maybe_put: numbers, booleans, chars, ()"""
    if t[0] == "nil":
        return True
    if t[0] == "atom":
        s = t[1]
        return bool(re.match(r"^-?\d+$", s)) or s in ("#t", "#f") or s.startswith("#\\")
    return False


def d_get_val(t, as_ptr):
    """get_as_cell on the value of t; as_ptr: reached through a Ptr (one more frame)"""
    k = t[0]
    extra = 1 if as_ptr else 0
    if k in ("atom", "nil"):
        return 1 + extra
    if k == "vec":
        # elements are maybe_put results: immediates stay, the rest are pointers
        return 1 + extra + max([d_get_val(x, not is_imm(x)) for x in t[1]] + [0])
    m = 0
    while t[0] == "pair":
        m = max(m, d_get_val(t[1], True))       # car is always a pointer (put_cell)
        t = t[2]
    if t[0] != "nil":
        m = max(m, d_get_val(t, False))         # improper tail: the cell itself
    return 1 + extra + m


def d_write(t):
    k = t[0]
    if k in ("atom", "nil"):
        return 1
    if k == "vec":
        return 1 + max([d_write(x) for x in t[1]] + [0])
    if is_quote_form(t):
        return 1 + d_write(t[2][1])
    m = 0
    while t[0] == "pair":
        m = max(m, d_write(t[1]))
        t = t[2]
    if t[0] != "nil":
        m = max(m, d_write(t))
    return 1 + m


def d_mark_addr(t):
    """Heap::mark on the address of t's cell (no sharing except symbols, which are leaves)"""
    k = t[0]
    if k in ("atom", "nil"):
        return 1
    if k == "vec":
        return 1 + max([d_mark_vcell(x) for x in t[1]] + [0])
    m = 0
    while t[0] == "pair":
        m = max(m, d_mark_addr(t[1]))
        t = t[2]
    return 1 + max(m, d_mark_tail(t))


def d_mark_tail(t):
    # the loop continues into the last cdr cell in the same frame
    if t[0] == "vec":
        return max([d_mark_vcell(x) for x in t[1]] + [0])
    return 0


def d_mark_vcell(t):
    """mark_vcell on a vector element (immediate or Ptr)"""
    if is_imm(t):
        return 1
    return 1 + d_mark_addr(t)


SETREC = sys.setrecursionlimit(20000)


# ================================================================== generators
def enc(s):
    return [ord(c) for c in s]


def gen_data(rng, n110, n111):
    cases, meta = [], []
    shapes = ["car", "cdr", "vector", "quote", "mixed"]
    for i in range(n110 + n111):
        shape = shapes[i % 5]
        n = rng.randint(1, 200) if rng.random() < 0.8 else rng.randint(1, 12)
        t = gen_tree(rng, shape, n)
        s = render(t)
        if i < n110:
            if rng.random() < 0.12:
                s = s[:rng.randint(1, len(s))]      # truncated: incomplete or still complete
                t = None
            cases.append([110] + enc(s))
        else:
            s2 = ""
            if rng.random() < 0.3:
                # a copy with one mutated atom (early exit of equal?)
                idxs = [m.start() for m in re.finditer(r"(?<![\w#\\\"])(\d+|a|b|foo)(?![\w\"])", s)]
                if idxs:
                    k = rng.choice(idxs)
                    s2 = s[:k] + "9" + s[k:]
            cases.append([111, len(s)] + enc(s + s2))
        meta.append((shape, n, t, s))
    return cases, meta


def gen_expr(rng, d):
    if d <= 0 or rng.random() < 0.1:
        return rng.choice(["x", "y", "f", "1", "#t", '"s"', "car", "'a", "'(1 2)", "()"] if rng.random() < 0.9 else ["if", "quote"])
    r = rng.random()
    sub = lambda: gen_expr(rng, d - 1 if rng.random() < 0.6 else rng.randint(0, d - 1))
    if r < 0.4:
        return "(" + " ".join([rng.choice(["f", "g", "car", "+", "list"])] + [sub() for _ in range(rng.randint(1, 3))]) + ")"
    if r < 0.5:
        return "((" + "lambda (a) " + sub() + ") " + sub() + ")"
    if r < 0.62:
        return "(if " + " ".join(sub() for _ in range(rng.choice([1, 2, 2, 3, 3, 4]))) + ")"
    if r < 0.74:
        return "(lambda " + rng.choice(["(x)", "(x y)", "args", "(x . r)", "()", "(1)"]) + " " + " ".join(sub() for _ in range(rng.randint(1, 2))) + ")"
    if r < 0.8:
        return "(define " + rng.choice(["v", "(g x)", "(g . r)"]) + " " + sub() + ")"
    if r < 0.85:
        return "(set! x " + sub() + ")"
    if r < 0.95:
        return "`" + gen_qq(rng, d - 1, 0)
    return "'" + render(gen_tree(rng, "mixed", min(d, 6)))


def gen_qq(rng, d, level):
    if d <= 0 or rng.random() < 0.15:
        return rng.choice(["a", "1", "()", "#(1 2)"])
    r = rng.random()
    if r < 0.25:
        return "," + (gen_expr(rng, d - 1) if level == 0 else gen_qq(rng, d - 1, level - 1))
    if r < 0.35:
        return "`" + gen_qq(rng, d - 1, level + 1)
    if r < 0.5:
        return "#(" + " ".join(gen_qq(rng, d - 1, level) for _ in range(rng.randint(1, 2))) + ")"
    return "(" + " ".join(gen_qq(rng, d - 1 if i == 0 else rng.randint(0, d - 1), level) for i in range(rng.randint(1, 3))) + ")"


def gen_exprs(rng, n):
    cases = []
    for i in range(n):
        d = rng.randint(1, 150) if i % 3 == 0 else rng.randint(1, 10)
        if i % 3 == 0:
            # a deep spine in one construct
            kind = rng.choice(["app", "if", "lambda", "qq", "define", "opapp"])
            e = rng.choice(["x", "1", "(f y)"])
            for _ in range(d):
                if kind == "app":
                    e = "(f " + e + ")"
                elif kind == "opapp":
                    e = "(" + e + " 1)"
                elif kind == "if":
                    e = rng.choice(["(if " + e + " 1 2)", "(if x " + e + ")", "(if x 1 " + e + ")"])
                elif kind == "lambda":
                    e = "(lambda (a) " + e + ")"
                elif kind == "define":
                    e = "(define (g a) " + e + ")"
                else:
                    e = "(a " + e + ")"
            if kind == "qq":
                e = "`" + e
        else:
            e = gen_expr(rng, d)
        cases.append([112] + enc(e))
    return cases


# ==================================================================== compare
def fields(line):
    return dict(m.groups() for m in re.finditer(r"(\w+)=(\d+)", line or ""))


def compare(case, il, ml):
    """None when implementation and model agree on the case"""
    if il == ml:
        return None
    if case[0] == 112:
        fi, fm = fields(il), fields(ml)
        if il.endswith(" ERR") and ml.endswith(" ERR") and fi and fm and fi.get("transform") == fm.get("transform") \
                and int(fi["compile"]) <= int(fm["compile"]) and int(fi["ffs"]) <= int(fm["ffs"]):
            return None
    return "implementation %r model %r" % (il[:200], ml[:200])


def oracle(case, meta, il):
    """independent statement of the depths on the generated tree"""
    shape, n, t, s = meta
    if t is None:
        return None
    f = fields(il)
    if case[0] == 110:
        if not il.endswith(" OK"):
            return "reader rejects a well-formed datum: " + il[:80]
        want = {"parse": d_parse(t)}
    elif case[0] == 111:
        if " OK " not in il:
            return "datum operations failed: " + il[:80]
        want = {"put": d_put(t), "get": d_get_val(t, not is_imm(t)), "write": d_write(t),
                "mark": d_mark_addr(t) if not is_imm(t) else 1}
    else:
        return None
    for k, v in want.items():
        if int(f.get(k, -1)) != v:
            return "depth: %s measured %s, the datum's structure gives %d" % (k, f.get(k), v)
    return None


# ======================================================================= grid
def scenario_id(sc):
    return "/".join(str(x) for x in sc)


def run_scenario(exes, sc, limit):
    direction, op, depth, thread, profile = sc
    exe = exes[profile]
    t0 = time.time()
    try:
        p = subprocess.run([exe, direction, op, str(depth), thread], stdout=subprocess.PIPE, stderr=subprocess.PIPE,
                           timeout=limit, text=True, errors="replace")
        rc, out, err = p.returncode, p.stdout, p.stderr
    except subprocess.TimeoutExpired as e:
        rc, out, err = "timeout", (e.stdout or b"").decode("latin-1") if isinstance(e.stdout, bytes) else (e.stdout or ""), \
            (e.stderr or b"").decode("latin-1") if isinstance(e.stderr, bytes) else (e.stderr or "")
    wall = time.time() - t0
    stage, family, fdepth = None, None, 0
    for ln in err.splitlines():
        if ln.startswith("STAGE "):
            stage, family, fdepth = ln[6:].strip(), None, 0
        else:
            m = re.match(r"DEPTH (\w+) (\d+)", ln)
            if m:
                family, fdepth = m.group(1), int(m.group(2))
    done = [ln for ln in out.splitlines() if ln.startswith("DONE ")]
    res = {"scenario": scenario_id(sc), "rc": rc, "stage": stage, "family": family, "family_depth": fdepth,
           "wall_s": round(wall, 2), "done": done[-1][:160] if done else None,
           "stderr_tail": " | ".join(l for l in err.splitlines()[-3:] if not l.startswith(("STAGE", "DEPTH")))[:240]}
    if rc == 0 and done:
        res["outcome"] = "pass"
    elif rc == "timeout":
        res["outcome"] = "timeout"
        res["function"] = "slow-" + (family or stage or "start")
    else:
        res["outcome"] = "abort"
        overflow = "overflowed its stack" in err or "stack overflow" in err
        res["stack_overflow_message"] = overflow
        res["function"] = family or STAGE_DEFAULT.get(stage or "", "unattributed-%s" % stage)
    if "function" in res:
        res["finding"] = "%s-%s" % (res["function"], direction)
    return res


def grid(tier, profiles):
    depths = [1000, 10000] if tier == "quick" else [1000, 10000, 100000]
    out = []
    for profile in profiles:
        for depth in depths:
            for direction in DIRECTIONS:
                for op in OPERATIONS:
                    for thread in ("main", "2m"):
                        out.append((direction, op, depth, thread, profile))
    return out


def probes(tier, profiles):
    """outside the property's grid: passes that another pass masks in every grid scenario"""
    depths = [1000, 10000] if tier == "quick" else [1000, 10000, 100000]
    return [(d, "probe-display", n, th, p) for p in profiles for n in depths
            for d in ("car", "cdr", "vector", "quote", "nested") for th in ("main", "2m")]


def run_grid(exes, scs, limit, workers):
    with ThreadPoolExecutor(max_workers=workers) as ex:
        return list(ex.map(lambda sc: run_scenario(exes, sc, limit), scs))


def parse_scenario(s):
    d, op, depth, thread, profile = s.split("/")
    return (d, op, int(depth), thread, profile)


# ======================================================================= main
def main(tier="quick", seed=0, replay=None):
    rep = C.Report(PID, tier, seed)
    rng = random.Random((seed, PID).__repr__())
    profiles = ["debug"] if tier == "quick" else ["debug", "release"]
    try:
        exes = {}
        for prof in profiles if not replay else ["debug"]:
            mwh = C.build_harness(prof)
            exes[prof] = os.path.join(os.path.dirname(mwh), "mwdepth")
        exe = os.path.join(C.HARNESS, "target", "debug", "mwh")
        model_exe = C.build_model()
    except C.BuildError as e:
        print("CHECK-ERROR: " + str(e)[-3000:])
        return 2

    if replay:
        data = json.load(open(replay))
        for c in data.get("cases") or ([data["case"]] if data.get("case") else []):
            print("case     :", C.case_line(c)[:600])
            print("text     :", "".join(chr(x) for x in (c[2:] if c[0] == 111 else c[1:]))[:600])
            print("impl     :", C.run_impl(exe, [c])[0][:600])
            print("model    :", C.run_model(model_exe, [c])[0][:600])
        if data.get("scenario"):
            sc = parse_scenario(data["scenario"])
            if sc[4] not in exes:
                exes[sc[4]] = os.path.join(os.path.dirname(C.build_harness(sc[4])), "mwdepth")
            print("scenario :", json.dumps(run_scenario(exes, sc, 600)))
        if data.get("broken"):
            print("broken   :", data["broken"])
        return 0

    props = C.check_props(PID, ALLOWED_AXIOMS, thorough=(tier == "thorough"))

    # ------------------------------------------------------ depth correspondence
    n110, n111, n112 = (1200, 2600, 1200) if tier == "quick" else (6000, 14000, 6000)
    cases, meta = gen_data(rng, n110, n111)
    ecases = gen_exprs(rng, n112)
    cases += ecases
    meta += [("expr", 0, None, "")] * len(ecases)
    t0 = time.time()
    impl = C.run_impl(exe, cases, timeout=1200)
    model = C.run_model(model_exe, cases, timeout=1200)
    C.log("[C19] %d depth cases: impl+model %.1fs" % (len(cases), time.time() - t0))
    disagreements, oracle_fail, nontrivial, maxdepth = [], [], set(), {}
    shapes = {}
    for i, (c, il, ml) in enumerate(zip(cases, impl, model)):
        msg = compare(c, il, ml)
        if msg:
            disagreements.append((i, msg))
        o = oracle(c, meta[i], il)
        if o:
            oracle_fail.append((i, o))
        f = fields(il)
        for k, v in f.items():
            maxdepth[k] = max(maxdepth.get(k, 0), int(v))
        if f and max(int(v) for v in f.values()) >= 4 and (meta[i][1] >= 3 or c[0] == 112):
            nontrivial.add(C.digest(c))
        shapes[meta[i][0]] = shapes.get(meta[i][0], 0) + 1
    # kernel cross-check on a small sub-sample (vm_compute of run_case)
    small = [i for i, c in enumerate(cases) if len(c) < 120][: (40 if tier == "quick" else 200)]
    try:
        kbad = C.kernel_crosscheck([cases[i] for i in small], [model[i] for i in small], PID, shard=20)
    except C.BuildError as e:
        print("CHECK-ERROR: kernel cross-check failed to run: " + str(e)[-2000:])
        return 2
    if kbad:
        print("CHECK-ERROR: extracted model and vm_compute disagree on case %s" % C.case_line(cases[small[kbad[0]]])[:300])
        return 2

    def text_of(c):
        return "".join(chr(x) for x in (c[2:] if c[0] == 111 else c[1:]))

    for i, o in oracle_fail[:3]:
        rep.violation({"case": cases[i], "text": text_of(cases[i])[:2000], "impl": impl[i][:400], "model": model[i][:400],
                       "oracle": o, "generator": meta[i][:2]})
    broken = []
    if disagreements and not oracle_fail:
        # search the neighbourhood for an input on which the independent depth statement fails
        found = False
        extra, emeta = gen_data(random.Random(seed + 1), 600, 1400)
        eimpl = C.run_impl(exe, extra, timeout=1200)
        for c, m, l in zip(extra, emeta, eimpl):
            o = oracle(c, m, l)
            if o:
                rep.violation({"case": c, "text": text_of(c)[:2000], "impl": l[:400], "oracle": o})
                found = True
                break
        if not found:
            i, msg = disagreements[0]
            broken.append("depth correspondence broken on %d case(s)" % len(disagreements))
            rep.violation({"case": cases[i], "text": text_of(cases[i])[:2000], "impl": impl[i][:400], "model": model[i][:400],
                           "broken": "correspondence %s: %s; theorems relying on it: %s"
                                     % (CORRESPONDENCE, msg, ", ".join(props["theorems"])),
                           "n_disagreements": len(disagreements)}, no_input=True)

    # --------------------------------------------------------------------- grid
    known = {f["id"]: f for f in C.load_known(PID)}
    scs = grid(tier, profiles) + probes(tier, profiles)
    limit = 150 if tier == "quick" else 420
    t0 = time.time()
    results = run_grid(exes, scs, limit, C.NPROC)
    C.log("[C19] grid: %d child processes in %.1fs" % (len(scs), time.time() - t0))
    # the witness of every listed finding is replayed on every run
    have = {r["scenario"]: r for r in results}
    wit = []
    for f in known.values():
        w = f.get("witness")
        if isinstance(w, str) and w not in have:
            sc = parse_scenario(w)
            if sc[4] not in exes:
                try:
                    exes[sc[4]] = os.path.join(os.path.dirname(C.build_harness(sc[4])), "mwdepth")
                except C.BuildError as e:
                    print("CHECK-ERROR: " + str(e)[-2000:])
                    return 2
            wit.append(sc)
    wres = run_grid(exes, wit, 420, C.NPROC) if wit else []
    for r in wres:
        have[r["scenario"]] = r
    outcomes, by_finding, unknown = {}, {}, []
    for r in list(results) + wres:
        outcomes[r["outcome"]] = outcomes.get(r["outcome"], 0) + 1
        if r["outcome"] == "pass":
            continue
        fid = r["finding"]
        by_finding.setdefault(fid, []).append(r["scenario"])
        if fid in known:
            rep.known(fid, known[fid]["what"])
        else:
            unknown.append(r)
    seen = set()
    for r in unknown:
        if r["finding"] in seen:
            continue
        seen.add(r["finding"])
        rep.violation({"scenario": r["scenario"], "observation": r,
                       "oracle": "%s: child process %s in stage %s; (function, direction) %s is not a listed finding"
                                 % (r["outcome"], r["rc"], r["stage"], r["finding"]),
                       "all_scenarios_of_this_class": [x["scenario"] for x in unknown if x["finding"] == r["finding"]][:40]})
    known_not_reproduced = sorted(fid for fid, f in known.items()
                                  if isinstance(f.get("witness"), str) and have.get(f["witness"], {}).get("outcome") == "pass")

    if not props["ok"]:
        broken.append("proof: " + "; ".join(props["problems"])[:1500])
        if not rep.violations:
            rep.violation({"broken": "proof obligation no longer checks: %s (%s)"
                                     % (props.get("broken_at", props["file"]), "; ".join(props["problems"])[:1500]),
                           "cases": []}, no_input=True)

    samples = []
    for i in (0, n110 + 3, n110 + n111 + 6):
        if i < len(cases):
            samples.append({"interface": cases[i][0], "text": text_of(cases[i])[:200], "impl": impl[i][:200], "model": model[i][:200]})
    for r in [x for x in results if x["outcome"] != "pass"][:4] + [x for x in results if x["outcome"] == "pass"][:2]:
        samples.append({"scenario": r["scenario"], "outcome": r["outcome"], "rc": r["rc"], "stage": r["stage"],
                        "function": r.get("function"), "done": r["done"]})
    for t in props["theorems"][:3]:
        samples.append({"obligation": "%s.%s" % (props["file"], t)})
    grid_table = {}
    for r in results:
        d, op, depth, thread, profile = r["scenario"].split("/")
        grid_table.setdefault("%s/%s" % (d, op), {})["%s/%s/%s" % (depth, thread, profile)] = \
            r["outcome"] if r["outcome"] == "pass" else "%s:%s" % (r["outcome"], r.get("function"))
    rep.coverage = {
        "obligations": props["obligations"], "discharged": props["discharged"],
        "checker_cmd": "make -C coq %so  (coqc 8.16.1, full .vo; property file recompiled in this run%s)"
                       % (props["file"], "; cone rebuilt from clean + coqchk -o" if tier == "thorough" else ""),
        "trusted_base": C.TRUSTED_BASE_COMMON + TRUSTED_BASE,
        "theorems": props["theorems"], "axioms_reported": props["axioms"],
        "cone_files": props.get("cone_files", []), "proof_problems": props["problems"],
        "open_statements": ["C19_get_as_cell_vector_unbounded_stmt", "C19_mark_vector_unbounded_stmt",
                            "C19_equal_cdr_bounded_stmt"],
        "evaluations": len(cases) + len(results) + len(wres),
        "distinct_nontrivial": len(nontrivial),
        "rule": RULE, "samples": samples, "exhaustive": False, "profiles": profiles,
        "kernel_crosscheck": len(small),
        "depth_cases": len(cases), "depth_disagreements": len(disagreements), "depth_oracle_failures": len(oracle_fail),
        "max_depth_measured": maxdepth,
        "distribution": {"shapes": shapes, "interfaces": {"110": n110, "111": n111, "112": n112}, "nesting": "1..200"},
        "grid_child_processes": len(results), "witness_child_processes": len(wres), "grid_outcomes": outcomes,
        "grid_wall_limit_s": limit, "grid": grid_table,
        "aborts_by_finding": {k: v[:12] for k, v in sorted(by_finding.items())},
        "known_findings_seen": sorted(rep.known_seen), "known_not_reproduced": known_not_reproduced,
        "partial": "theorems are about the recursion depth of the model; the abort is observed in child processes",
        "broken": broken,
    }
    if "coqchk" in props:
        rep.coverage["coqchk"] = props["coqchk"]
    rep.assumptions = ASSUMPTIONS
    return rep.finish()
