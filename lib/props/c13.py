"""C13 — sliced execution (prepare_eval + run_count with any positive budgets) always makes
progress, completes, and yields exactly the value, failure, output and global effects of
the uninterrupted evaluation."""
import vmgen
from vmgen import enc, dec

PID = "C13"
# the machine state contains numbers (Model/Num.v, Flocq binary64): Print Assumptions lists the four
# standard axioms behind Coq's Reals for statements that mention the vm record
ALLOWED_AXIOMS = ["Classical_Prop.classic", "ClassicalDedekindReals.sig_forall_dec",
                  "ClassicalDedekindReals.sig_not_dec", "FunctionalExtensionality.functional_extensionality_dep"]
PROFILES = ["debug"]
SHARD_TIMEOUT = {"quick": 300, "thorough": 1200}   # seconds per implementation shard; a hang becomes TIMEOUT lines, not a stalled check
CASES_PER_SHARD = 100      # sessions are expensive on the model: use all cores
CORRESPONDENCE = ("Vm::prepare_eval + Vm::run_count(budget) resume loop (wire 72/73) and Vm::eval (wire 70) "
                  "vs Model/Vm.v run_count / Model/WireVm.v resume")
RULE = ("generated small terminating programs (vmgen.gen_program: recursion, named-let and tail loops, closures, "
        "call/cc escapes and re-entry across and inside top-level forms, errors at call depths 0..30, display "
        "output, set!/set-car! effects probed by later forms, syntax and read errors); every program runs "
        "uninterrupted (70), with EVERY constant budget 1..64 (72) and with pseudo-random budget sequences drawn "
        "from 1..M, M in {2,7,64,1000,10000} (73); longer programs (10^3..10^5 instructions) run with random "
        "sequences only.  cross-case oracle: the sliced result line (per-datum values and failures of every "
        "form, including the later forms that read the globals, and the display/write log) must equal the "
        "uninterrupted line of the same forms; the harness turns 600000 resumptions without completion into an "
        "error, which then differs from the uninterrupted line.  non-trivial = a sliced case whose program "
        "produced a non-void value, an error or output; distinct by case hash")
ASSUMPTIONS = ["the collector is not forced at slice boundaries beyond what run_count does itself (each resume ends "
               "with the ordinary run_gc call); C03 schedules are exercised by the gc package",
               "a no-progress resume loop is observed through the harness limit of 600000 resumptions per datum"]
KERNEL_SAMPLE = {"quick": 60, "thorough": 400}
KERNEL_MAXLEN = 700
TRUSTED_BASE = ["lib/props/vmgen.py program generator and result-line parsers"]
MANIFEST = dict(
    text="Coq theorems over the hand-written model of run.rs run_count (after fix d7fdcd1): a slice with positive budget b yields exactly after b executed instructions (progress), slices compose (a then b = a+b), and for every list of positive budgets whose sum covers the uninterrupted run the sliced run ends with the same result and the same final machine state; an uninterrupted run never reports 'budget exhausted'; at the level of the entry points: prepare_eval followed by run_count over any list of positive budgets returns the same Done/Failed result and the same machine state (all 12 fields) as eval and never ends unfinished (C13_eval_sliced_equals_eval); the Rust collects at slice boundaries and the model has no collector, which is what C03 covers. Tied to /repo by running generated programs uninterrupted, with every constant budget 1..64 and with pseudo-random budget sequences up to 10^4 on implementation, extracted model and (sub-sample) vm_compute, plus the cross-case oracle sliced line = uninterrupted line on the implementation itself.",
    design="DESIGN.md section 5 C13",
    note="Trusted: Coq kernel; hand-written model of run.rs/compile.rs/prelude expansion tied by sampling correspondence; the model has no collector (its unobservability is C03); harness resume loop and its 600000-resumption limit; Python generators and cross-case oracle. Axioms: the four standard-library axioms of Coq's Reals inherited through Flocq's binary64 in the number type of the machine state (Classical_Prop.classic, ClassicalDedekindReals.sig_forall_dec, sig_not_dec, FunctionalExtensionality.functional_extensionality_dep).",
    technique="Rocq/Coq proof (induction on the instruction budget) + model/implementation correspondence check + cross-case oracle sliced = uninterrupted")

BUDGETS = list(range(1, 65))
RANDOM_M = [2, 7, 64, 1000, 10000]

# programs long enough to be cut several times by budgets of 10^3..10^4
LONG = [
    ["(define (count-down n) (cond ((= n 0) 'done) (else (count-down (- n 1)))))", "(count-down %(n)d)"],
    ["(define (sum-to i acc) (if (= i 0) acc (sum-to (- i 1) (+ acc i))))", "(sum-to %(n)d 0)", "(sum-to 3 0)"],
    ["(define (fib n) (if (< n 2) n (+ (fib (- n 1)) (fib (- n 2)))))", "(fib %(f)d)"],
    ["(define (iota-up a b) (if (< a b) (cons a (iota-up (+ a 1) b)) '()))", "(define l (iota-up 0 %(m)d))",
     "(define s 0)", "(for-each (lambda (x) (set! s (+ s x))) l)", "(length (map (lambda (x) (* x x)) l))", "s"],
    ["(define (deep n th) (if (= n 0) (th) (+ 1 (deep (- n 1) th))))", "(deep %(m)d (lambda () (car 5)))", "(deep %(m)d (lambda () 0))"],
    ["(define k0 #f) (define kn 0)", "(define (sum-to i acc) (if (= i 0) acc (sum-to (- i 1) (+ acc i))))",
     "(let ((v (call/cc (lambda (c) (set! k0 c) 0)))) (set! kn (+ kn 1)) (display v) (+ v (sum-to %(m)d 0)))",
     "(if (< kn 3) (k0 kn) 'done)", "(if (< kn 3) (k0 kn) 'done)", "kn"],
    ["(define (ev? n) (if (= n 0) #t (od? (- n 1)))) (define (od? n) (if (= n 0) #f (ev? (- n 1))))", "(ev? %(n)d)"],
    ["(define (loop i) (if (< i %(m)d) (let () (if (= i (* 50 (car (list 1)))) (display i)) (loop (+ i 1))) i))", "(loop 0)"],
    ["(define (find-first p l) (call/cc (lambda (ret) (for-each (lambda (x) (if (p x) (ret x))) l) #f)))",
     "(define (iota-up a b) (if (< a b) (cons a (iota-up (+ a 1) b)) '()))", "(find-first (lambda (x) (> x %(m)d)) (iota-up 0 %(n)d))"],
]


def long_program(rng):
    t = rng.choice(LONG)
    p = {"n": rng.choice([300, 1000, 2500]), "m": rng.choice([100, 300, 600]), "f": rng.choice([10, 13, 15])}
    return [f % p for f in t]


def corpus():
    out = []
    progs = [
        ["(define (f n) (if (= n 0) 'done (f (- n 1))))", "(f 10)"],
        ["(display 1) (display 2)", "(car 5)", "(+ 1 2)"],
        ["(define k #f)", "(+ 1 (call/cc (lambda (c) (set! k c) 1)))", "(k 10)", "(k 20)"],
        ["(if)", "1"], ["(car", "2"], ["1"], [""],
        ["(define x 0)", "(set! x (+ x 1)) (set! x (* x 10)) (car 5)", "x"],
    ]
    for p in progs:
        out.append(enc([70], p))
        for b in (1, 2, 3, 64):
            out.append(enc([72, b], p))
        out.append(enc([73, 12345, 7], p))
    return out


def generate(rng, tier):
    nprog = 400 if tier == "quick" else 4000
    nlong = 40 if tier == "quick" else 400
    nseq = 5 if tier == "quick" else 12
    cases = []
    feats = {}
    nforms = 0
    seen = set()
    made = 0
    while made < nprog:
        forms, features = vmgen.gen_program(rng)
        key = tuple(forms)
        if key in seen:
            continue
        seen.add(key)
        made += 1
        nforms += len(forms)
        for f in features:
            feats[f] = feats.get(f, 0) + 1
        cases.append(enc([70], forms))
        for b in BUDGETS:
            cases.append(enc([72, b], forms))
        for _ in range(nseq):
            cases.append(enc([73, rng.getrandbits(48), rng.choice(RANDOM_M)], forms))
    for _ in range(nlong):
        forms = long_program(rng)
        cases.append(enc([70], forms))
        for _ in range(nseq):
            cases.append(enc([73, rng.getrandbits(48), rng.choice([64, 1000, 10000, 10000])], forms))
        cases.append(enc([72, rng.choice([1, 2, 3, 5, 8, 13, 64])], forms))
    meta = {"exhaustive": False, "programs_short": nprog, "programs_long": nlong,
            "constant_budgets_per_short_program": len(BUDGETS), "random_sequences_per_program": nseq,
            "random_budget_moduli": RANDOM_M, "forms_per_short_program": round(nforms / max(1, nprog), 2),
            "program_features": dict(sorted(feats.items()))}
    return cases, meta


def _forms_key(case):
    head, forms = dec(case)
    return None if forms is None else tuple(forms)


def oracle(case, impl_line):
    """per-line invariants: the evaluation loop returned for every form, no panic, no hang"""
    head, forms = dec(case)
    if forms is None:
        return None
    if any(w in impl_line for w in ("PANIC", "ABORT", "TIMEOUT")):
        return "panic: sliced/uninterrupted evaluation must return a value or an error (%s)" % impl_line[:80]
    tag, parts, log = vmgen.split_forms(impl_line)
    if tag != "SESSION" or log is None:
        return "malformed: %r" % impl_line[:80]
    if len(parts) != len(forms):
        return "malformed: %d result groups for %d forms" % (len(parts), len(forms))
    return None


def cross_oracle(cases, impl_lines):
    base = {}
    for i, c in enumerate(cases):
        if c and c[0] == 70:
            k = _forms_key(c)
            if k is not None and k not in base:
                base[k] = i
    out = []
    for i, c in enumerate(cases):
        if not c or c[0] not in (72, 73):
            continue
        k = _forms_key(c)
        j = base.get(k)
        if j is None:
            continue
        if impl_lines[i] != impl_lines[j]:
            a, b = impl_lines[i], impl_lines[j]
            n = 0
            while n < min(len(a), len(b)) and a[n] == b[n]:
                n += 1
            what = "budget %d" % c[1] if c[0] == 72 else "budgets 1+(lcg>>33) mod %d, seed %d" % (max(1, c[2]), c[1])
            out.append((i, "sliced: %s gives %r where the uninterrupted evaluation gives %r (first difference at column %d)"
                        % (what, a[max(0, n - 20):n + 40], b[max(0, n - 20):n + 40], n)))
    return out


def related(cases, i):
    k = _forms_key(cases[i])
    for c in cases:
        if c and c[0] == 70 and _forms_key(c) == k:
            return [c]
    return []


def shrink_group(ctx, case, rel, profile):
    import sys
    g = vmgen.shrink_group(ctx, sys.modules[__name__], [case] + list(rel), profile)
    return g[0], g[1:]


def nontrivial(case, impl_line):
    if not case or case[0] not in (72, 73):
        return False
    tag, parts, log = vmgen.split_forms(impl_line)
    if log:
        return True
    body = "".join(parts).replace(" OK #<void>", "")
    return " OK " in body or " ERR" in body


def describe(case):
    head, forms = dec(case)
    d = {"iface": {70: "uninterrupted", 72: "sliced-constant", 73: "sliced-random"}.get(head[0], head[0]), "forms": forms}
    if head[0] == 72 and len(head) > 1:
        d["budget"] = head[1]
    if head[0] == 73 and len(head) > 2:
        d["seed"], d["modulus"] = head[1], head[2]
    return d


def reductions(case):
    head, forms = dec(case)
    if forms is None:
        return
    for f in vmgen.reduce_forms(forms):
        yield enc(head, f)
    if head[0] == 72 and head[1] > 1:
        yield enc([72, 1], forms)


def neighbours(case, rng):
    head, forms = dec(case)
    if forms is None:
        return []
    out = [enc([70], forms)]
    for b in (1, 2, 3, 4, 7, 64):
        out.append(enc([72, b], forms))
    for j in range(len(forms)):
        out.append(enc(head, forms[:j + 1]))
    return out
