"""C17 — syntax-rules is sound where supported and always terminates."""
import itertools
import srspec as R   # the independent R7RS 4.3.2 matcher/instantiator + reader/printer (lib/props/srspec.py)

PID = "C17"
ALLOWED_AXIOMS = []
CORRESPONDENCE = ("vm/transform.rs Transform::try_new / transform (pattern_match, expand) and the expansion driver of "
                  "vm/compile.rs vs Model/Transform.v")
RULE = ("generated transformers (1-3 rules; patterns nested to depth 3 with literals, _, custom ellipsis, ellipsis "
        "depth 0-2, fixed tails after an ellipsis, occasionally dotted tails, vectors and malformed ellipsis placement; "
        "templates reusing, dropping, duplicating and nesting pattern variables, at the right and at the wrong ellipsis "
        "depth) x generated uses (built to match one of the rules, then mutated: items added/dropped, literals "
        "changed, improper tails), through the direct API (Transform::try_new + transform) and through Vm::eval with "
        "quoted templates; plus exhaustive enumeration of small patterns/templates over {a b ... _ lit 1}; "
        "non-trivial = the definition is accepted and the use matched some rule (OK result)")
ASSUMPTIONS = [
    "uses whose ellipsis variables matched different numbers of items are excluded (the pinned suite fixes truncation)",
    "numbers in macro data are small exact integers (the shared NumFmt model is integers-only)",
    "hygiene: expansions are observed under quote, where the renaming hygiene would add is not observable",
]
KERNEL_SAMPLE = {"quick": 200, "thorough": 2000}
PROFILES = ["debug"]
MANIFEST = dict(
    text=("Coq theorems over a hand-written model of vm/transform.rs (as written, iterator state machines, per-variable "
          "cursors, with fix F15) against an R7RS 4.3.2 specification (Model/SRSpec.v): definition-time analysis is total "
          "for every datum (no fuel, never Panic); on the decidable fragment S_match (proper-list patterns nested to any "
          "depth, literals, _, one ellipsis per level after a pattern variable with a fixed tail of any length; uses "
          "that do not leave exactly the tail's length at such an ellipsis) pattern_match with the entry point's fuel "
          "returns exactly the R7RS match and its bindings are the flat reading of the R7RS environment; the rule loop "
          "selects the first R7RS-matching rule; the template instantiator expand (with its per-variable cursors) equals the "
          "specification's instantiation on accepted templates within the entry point's fuel and leaves every cursor "
          "reset (C17_expand_sound); hence on the supported fragment the whole transformer IS the R7RS specification "
          "function - sound, complete, terminating, independent of the fuel margin (C17_main, C17_supported_exact); "
          "eleven refutation lemmas with concrete witnesses for the recorded "
          "classes outside the fragment (nested ellipsis, variable twice under an ellipsis incl. a non-terminating "
          "one, vector/dotted templates, ellipsis variable without ellipsis, stale cursor, dotted patterns, ellipsis "
          "tail with zero items, vector patterns). Tied to /repo by generated transformers x uses through the direct "
          "API and through Vm::eval, 3-way (impl / extracted model / vm_compute) plus an independent Python R7RS "
          "oracle; every oracle failure must fall in a recorded class."),
    design="DESIGN.md section 5 C17",
    note=("No OPEN statement inside the supported fragment. C17_full (all transformers) is false and kept visible with its "
          "refutations; ellipsis after a sub-pattern/sub-template and dotted patterns are outside the proved fragment and covered by the differential check and "
          "the oracle only. Trusted: Coq kernel, the hand-written model (differential correspondence, sampling), "
          "extraction + OCaml driver (cross-checked in-kernel on a sub-sample), Rust harness (worker subprocess with "
          "time/address-space limit = TIMEOUT), Python oracle lib/props/srspec.py (cross-checked against Model/SRSpec.v "
          "through wire interface 52 during development). Axioms: the soundness theorems are closed under the global context; the refutation lemmas, whose statements parse text containing numbers, report the four standard Reals axioms via Flocq."),
    technique="Rocq/Coq proof (induction over patterns/uses, loop invariants of the iterator state machine) + model/implementation correspondence check")

VARS = ["a", "b", "c", "d", "e", "f", "g", "h"]
LITS = ["lit", "else"]
DATA = [1, 2, 3, 7, True, False, ("str", "s"), "x", "y", "lit", "else", "k"]


def Sy(s):
    return R.Sym(s)


# ------------------------------------------------------------------ generator
class Gen:
    def __init__(self, rng):
        self.rng = rng

    def pattern(self, depth, ell, lits, vars_out, edepth, allow_weird):
        """returns a list-pattern body (python list of elements, maybe R.Dot) """
        rng = self.rng
        n = rng.choice([0, 1, 1, 2, 2, 3, 4])
        items = []
        for _ in range(n):
            items.append(self.pat_elem(depth, ell, lits, vars_out, edepth, allow_weird))
        if items and rng.random() < 0.45:
            # one ellipsis after the element at position k, fixed tail after it
            k = rng.randrange(len(items))
            sub_vars = []
            items[k] = self.pat_elem(depth, ell, lits, sub_vars, edepth + 1, allow_weird,
                                     force=rng.choice(["var", "var", "list"]))
            vars_out.extend(sub_vars)
            items.insert(k + 1, Sy(ell))
        if allow_weird and rng.random() < 0.08:
            # malformed placements
            items.insert(rng.randrange(len(items) + 1), Sy(ell))
        if items and rng.random() < (0.10 if allow_weird else 0.0):
            tailv = self.fresh(vars_out, edepth)
            return R.Dot(items, tailv if rng.random() < 0.8 else 5)
        return items

    def fresh(self, vars_out, edepth):
        used = {v for v, _ in vars_out}
        if self.rng.random() < 0.03 and used:
            name = self.rng.choice(sorted(used))       # duplicate variable (malformed)
        else:
            cands = [v for v in VARS if v not in used and v not in self.taken]
            if not cands:
                return Sy("_")
            name = cands[0]
        self.taken.add(name)
        vars_out.append((name, edepth))
        return Sy(name)

    def pat_elem(self, depth, ell, lits, vars_out, edepth, allow_weird, force=None):
        rng = self.rng
        r = rng.random()
        kind = force
        if kind is None:
            if r < 0.45:
                kind = "var"
            elif r < 0.55:
                kind = "_"
            elif r < 0.67:
                kind = "lit"
            elif r < 0.75:
                kind = "datum"
            elif r < 0.97:
                kind = "list"
            else:
                kind = "vec" if allow_weird else "list"
        if kind == "list" and depth <= 0:
            kind = "var"
        if kind == "var":
            return self.fresh(vars_out, edepth)
        if kind == "_":
            return Sy("_")
        if kind == "lit":
            return Sy(rng.choice(lits)) if lits else Sy("q")
        if kind == "datum":
            return rng.choice([1, 2, True, ("str", "s"), []])
        if kind == "vec":
            return R.Vec([self.fresh(vars_out, edepth), 1][: rng.randint(1, 2)])
        return self.pattern(depth - 1, ell, lits, vars_out, edepth, allow_weird)

    def template(self, depth, ell, pvars, cur_depth, allow_weird):
        """a template using pattern variables; [cur_depth] = number of enclosing ellipses"""
        rng = self.rng
        r = rng.random()
        if depth <= 0 or r < 0.35:
            r2 = rng.random()
            if pvars and r2 < 0.7:
                # prefer variables whose depth equals the current depth, sometimes wrong
                good = [v for v, d in pvars if d == cur_depth]
                if good and rng.random() < 0.96:
                    return Sy(rng.choice(good))
                zero = [v for v, d in pvars if d == 0]
                if zero and rng.random() < 0.7:
                    return Sy(rng.choice(zero))
                return Sy(rng.choice(pvars)[0])
            return rng.choice([1, 2, Sy("x"), Sy("k"), Sy("lit"), True, ("str", "s"), []])
        n = rng.choice([1, 1, 2, 2, 3, 4])
        items = []
        for _ in range(n):
            deeper = [v for v, d in pvars if d > cur_depth]
            if deeper and rng.random() < 0.45:
                # an element followed by an ellipsis
                if rng.random() < 0.6:
                    good = [v for v, d in pvars if d == cur_depth + 1]
                    sub = Sy(rng.choice(good)) if good and rng.random() < 0.9 else Sy(rng.choice(pvars)[0])
                else:
                    sub = self.template(depth - 1, ell, pvars, cur_depth + 1, allow_weird)
                items.append(sub)
                items.append(Sy(ell))
            else:
                items.append(self.template(depth - 1, ell, pvars, cur_depth, allow_weird))
        if allow_weird and rng.random() < 0.05:
            items.insert(rng.randrange(len(items) + 1), Sy(ell))
        if allow_weird and rng.random() < 0.05:
            return R.Vec(items)
        if allow_weird and rng.random() < 0.06:
            return R.Dot(items, rng.choice([Sy(pvars[0][0]) if pvars else 5, 5]))
        return items

    def datum(self, depth):
        rng = self.rng
        if depth <= 0 or rng.random() < 0.6:
            d = rng.choice(DATA)
            return Sy(d) if isinstance(d, str) else d
        return [self.datum(depth - 1) for _ in range(rng.choice([0, 1, 2, 2, 3]))]

    def use_for(self, pat, ell, lits, depth=3):
        """a form built to match the pattern element [pat] (modulo the matcher's quirks)"""
        rng = self.rng
        if isinstance(pat, R.Sym):
            if pat.name == "_" or pat.name not in lits:
                return self.datum(1 if rng.random() < 0.8 else 2)
            return pat
        if isinstance(pat, R.Vec):
            return R.Vec([self.use_for(x, ell, lits) for x in pat.items]) if rng.random() < 0.7 else pat
        if isinstance(pat, R.Dot):
            front = self.use_list(pat.items, ell, lits)
            r = rng.random()
            if r < 0.4:
                extra = self.datum(2)
                return front + (extra if isinstance(extra, list) else [extra])
            if r < 0.7:
                return R.Dot(front, self.atom()) if front else self.atom()
            return front
        if isinstance(pat, list):
            return self.use_list(pat, ell, lits)
        return pat

    def atom(self):
        d = self.rng.choice([1, 2, 7, True, "x", "y"])
        return Sy(d) if isinstance(d, str) else d

    def use_list(self, items, ell, lits):
        rng = self.rng
        out = []
        i = 0
        while i < len(items):
            if i + 1 < len(items) and isinstance(items[i + 1], R.Sym) and items[i + 1].name == ell:
                for _ in range(rng.choice([0, 1, 1, 2, 2, 3])):
                    out.append(self.use_for(items[i], ell, lits))
                i += 2
            else:
                out.append(self.use_for(items[i], ell, lits))
                i += 1
        return out

    def mutate(self, form):
        rng = self.rng
        if not isinstance(form, list):
            return self.datum(1)
        form = list(form)
        r = rng.random()
        if r < 0.3 and form:
            del form[rng.randrange(len(form))]
        elif r < 0.6:
            form.insert(rng.randrange(len(form) + 1), self.datum(1))
        elif r < 0.8 and form:
            k = rng.randrange(len(form))
            form[k] = self.mutate(form[k]) if isinstance(form[k], list) else self.datum(1)
        elif form:
            return R.Dot(form, self.atom())
        return form

    def transformer(self, quoted, allow_weird=True):
        rng = self.rng
        ell = "..." if rng.random() < 0.8 else rng.choice([":::", "dots"])
        lits = [] if rng.random() < 0.5 else rng.sample(LITS, rng.randint(1, 2))
        if rng.random() < 0.03:
            lits = lits + ["_"]
        rules = []
        pats = []
        for _ in range(rng.choice([1, 1, 2, 2, 3])):
            pvars = []
            self.taken = set()
            weird = allow_weird and rng.random() < 0.25
            body = self.pattern(rng.choice([1, 2, 2, 3]) - 1, ell, lits, pvars, 0, weird)
            head = Sy(rng.choice(["_", "_", "m", "kw"]))
            pat = R.Dot([head] + body.items, body.tail) if isinstance(body, R.Dot) else [head] + body
            tmpl = self.template(rng.choice([1, 2, 2, 3]), ell, pvars, 0, weird)
            if quoted:
                tmpl = [Sy("quote"), tmpl]
            rules.append([pat, tmpl])
            pats.append(body)
        head = [Sy("syntax-rules")] + ([Sy(ell)] if ell != "..." else []) + [[Sy(x) for x in lits]]
        d = [Sy("define-syntax"), Sy("m"), head + rules]
        return d, pats, ell, lits

    def use(self, pats, ell, lits):
        rng = self.rng
        body = rng.choice(pats)
        if isinstance(body, R.Dot):
            form = self.use_for(body, ell, lits)
        else:
            form = self.use_list(body, ell, lits)
        r = rng.random()
        if r < 0.30:
            form = self.mutate(form)
        elif r < 0.34:
            form = self.datum(2)
        if isinstance(form, list):
            return [Sy("m")] + form
        if isinstance(form, R.Dot):
            return R.Dot([Sy("m")] + form.items, form.tail)
        return R.Dot([Sy("m")], form)


def mk_case(iface, d, u):
    dt = [ord(c) for c in R.show(d)]
    ut = [ord(c) for c in R.show(u)]
    return [iface, len(dt)] + dt + ut


def split_case(case):
    n = case[1]
    return "".join(map(chr, case[2:2 + n])), "".join(map(chr, case[2 + n:]))


CORPUS = [
    ("() ((_ a) '(a ...))", "(m 1)"),
    ("() ((_ (a b ...) ...) '((a b ...) ...))", "(m (1 2 3) (4 5))"),
    ("() ((_ a ...) '((a a) ...))", "(m 1 2)"),
    ("() ((_ a ...) '((a a) ...))", "(m 1 2 3)"),
    ("() ((_ a) '#(a))", "(m 1)"),
    ("() ((_ a) '(a . 5))", "(m 1)"),
    ("() ((_ a ...) '(a))", "(m 1 2)"),
    ("() ((_ a . b) '(a b))", "(m 1 2 3)"),
    ("() ((_ a . b) '(a b)) ((_ c ...) 'second)", "(m 1 2 3)"),
    ("() ((_ a ... b) '(a ... b))", "(m 1)"),
    ("() ((_ a ... b) '(a ... b)) ((_ c) 'second)", "(m 1)"),
    ("() ((_ #(a b)) '(a b))", "(m #(1 2))"),
    ("() ((_ #(a b)) '(a b)) ((_ c) 'second)", "(m #(1 2))"),
    ("() ((_ #(a b)) '(a b))", "(m #(a b))"),
    ("() ((_ . a) 'a)", "(m 1)"),
    ("() ((_ (b ...) ...) '((b ...) ...))", "(m (1 2) (3 4))"),
    ("() ((_ a ...) '((a (a ...)) ...))", "(m 1 2)"),
    ("() ((_ a ...) '(1 ...))", "(m 1 2)"),
    ("() ((_ a ...) '((f) ...))", "(m 1 2)"),
    ("() ((_ a ...) '((a ...) ...))", "(m 1 2)"),
    ("() ((_ (x y) ...) '(((x y) ...) (y ...)))", "(m (1 a) (2 b))"),
    ("() ((_ (x x* ...) (y y* ...)) '(+ (* x y) (* x* y*) ...))", "(m (10 20 30) (10 20 30))"),
    ("(else) ((_ a) '(one a)) ((_ a b ... else (c d)) '(d (a) (b ...) c b ...)) ((_ x ...) '(x ...))", "(m 1 2 3 else (4 5))"),
    ("(add sub) ((_ add a b) '(+ a b)) ((_ sub a b) '(- a b))", "(m sub 1 2)"),
    ("::: () ((_ a :::) '(a ::: ...))", "(m 1 2)"),
    ("(_) ((m _ a) 'a)", "(m _ 2)"),
    ("() ((_ ((name val) ...) body1 body2 ...) '((lambda (name ...) body1 body2 ...) val ...))", "(m ((x 1) (y 2)) x y)"),
]


def corpus():
    out = []
    for r, u in CORPUS:
        for iface in (50, 51):
            d = "(define-syntax m (syntax-rules %s))" % r
            out.append([iface, len(d)] + [ord(c) for c in d] + [ord(c) for c in u])
    return out


def small_terms(alpha, maxn):
    """all lists (nested one level) over the alphabet with at most maxn leaves"""
    res = []
    leaves = alpha
    for n in range(0, maxn + 1):
        for combo in itertools.product(range(len(leaves)), repeat=n):
            res.append([leaves[k] for k in combo])
    return res


def exhaustive(tier):
    """every pattern body / template of at most N leaves over {a b ... _ lit 1} with one
    optional nested list, against a fixed set of uses"""
    alpha = [Sy("a"), Sy("b"), Sy("..."), Sy("_"), Sy("lit"), 1]
    n = 3 if tier == "quick" else 4
    flat = small_terms(alpha, n)
    pats = list(flat)
    # one nested list at some position
    for outer in small_terms(alpha, 2):
        for inner in small_terms(alpha[:3] + alpha[5:], 2 if tier == "quick" else 3):
            for k in range(len(outer) + 1):
                pats.append(outer[:k] + [inner] + outer[k:])
    uses = [[], [1], [1, 2], [1, 2, 3], [Sy("lit")], [[1, 2]], [[1, 2], [3]], [1, Sy("lit")], [[], 1]]
    tmpls = [Sy("a"), [Sy("a")], [Sy("a"), Sy("...")], [Sy("a"), Sy("b")], [Sy("b"), Sy("..."), Sy("a")],
             [[Sy("a"), Sy("b")], Sy("...")], [[Sy("a"), Sy("...")], Sy("b")], [Sy("a"), Sy("a")],
             [[Sy("a"), Sy("a")], Sy("...")], [[Sy("a"), Sy("..."), ], Sy("...")], [Sy("a"), Sy("..."), Sy("b"), Sy("...")]]
    cases = []
    step = 1
    for pi, p in enumerate(pats):
        for ti, t in enumerate(tmpls):
            if tier == "quick" and (pi * 7 + ti) % 6 != 0:
                continue
            d = [Sy("define-syntax"), Sy("m"), [Sy("syntax-rules"), [Sy("lit")], [[Sy("_")] + p, [Sy("quote"), t]],
                                                [[Sy("_"), Sy("r"), Sy("...")], [Sy("quote"), Sy("fallthrough")]]]]
            for ui, u in enumerate(uses):
                if tier == "quick" and (pi + ti + ui) % 3 != 0:
                    continue
                cases.append(mk_case(50, d, [Sy("m")] + u))
    # every template over the alphabet against a fixed pattern
    tms = list(flat)
    for outer in small_terms(alpha[:3] + alpha[5:], 2):
        for inner in small_terms(alpha[:3] + alpha[5:], 3):
            for k in range(len(outer) + 1):
                tms.append(outer[:k] + [inner] + outer[k:])
    fixed = [([Sy("a"), Sy("b"), Sy("...")], [[1], [1, 2], [1, 2, 3]]),
             ([[Sy("a"), Sy("b")], Sy("...")], [[], [[1, 2]], [[1, 2], [3, 4]]]),
             ([Sy("a"), [Sy("b"), Sy("...")]], [[1, []], [1, [2, 3]]])]
    for t in tms:
        for p, us in fixed:
            d = [Sy("define-syntax"), Sy("m"), [Sy("syntax-rules"), [Sy("lit")], [[Sy("_")] + p, [Sy("quote"), t]]]]
            for u in us:
                cases.append(mk_case(50, d, [Sy("m")] + u))
    return cases, {"exhaustive_patterns": len(pats), "exhaustive_templates": len(tms)}


def generate(rng, tier):
    g = Gen(rng)
    cases = []
    npairs = 10000 if tier == "quick" else 300000
    neval = 1500 if tier == "quick" else 20000
    ntr = 0
    while len(cases) < npairs:
        iface = 51 if len(cases) < neval else 50
        quoted = iface == 51 or rng.random() < 0.7
        d, pats, ell, lits = g.transformer(quoted, allow_weird=(rng.random() < 0.6))
        ntr += 1
        for _ in range(rng.choice([2, 3, 4, 6])):
            cases.append(mk_case(iface, d, g.use(pats, ell, lits)))
    ex, meta = exhaustive(tier)
    meta.update({"random_pairs": len(cases), "transformers": ntr, "via_eval": neval, "exhaustive": True,
                 "exhaustive_cases": len(ex)})
    return cases + ex, meta


# -------------------------------------------------------------------- oracle
def spec_of(case):
    dt, ut = split_case(case)
    try:
        d = R.read(dt)
        u = R.read(ut)
    except R.ReadError:
        return ("unreadable",)
    return R.expand_use(d, u, quoted_value=(case[0] == 51))


def oracle(case, impl_line):
    if impl_line == "PANIC" or impl_line.startswith("ABORT"):
        return "panic: definition/expansion must not panic (%s)" % impl_line
    if impl_line.startswith("TIMEOUT"):
        return "hang: definition and expansion must terminate"
    if impl_line.startswith("ERR"):
        return None                      # a reported error is always allowed
    if not impl_line.startswith("OK "):
        return "malformed: unexpected result line %r" % impl_line[:80]
    sp = spec_of(case)
    if sp[0] in ("excluded", "not-a-quote", "unreadable"):
        return None                      # ellipsis variables matched different lengths / outside the interface
    try:
        got = R.read(R.unesc(impl_line[3:]))
    except R.ReadError:
        return "malformed: cannot read the expansion %r" % impl_line[:80]
    if sp[0] == "ok":
        if R.equal(got, sp[1]):
            return None
        return "misexpansion: accepted, but the expansion is not the one R7RS 4.3.2 prescribes (%s)" % R.show(sp[1])[:120]
    return "accepted-invalid: R7RS 4.3.2 gives no expansion (%s) but one was produced silently" % sp[0]


def nontrivial(case, impl_line):
    return impl_line.startswith("OK ")


# ------------------------------------------------- recorded classes (known_findings.json)
def _walk(t):
    yield t
    if isinstance(t, list):
        for x in t:
            yield from _walk(x)
    elif isinstance(t, (R.Dot, R.Vec)):
        for x in t.items:
            yield from _walk(x)
        if isinstance(t, R.Dot):
            yield from _walk(t.tail)


def _syms(t):
    return [x.name for x in _walk(t) if isinstance(x, R.Sym)]


def _pattern_features(Rl, body):
    f = set()
    for x in _walk(body):
        if isinstance(x, R.Dot):
            f.add("dotted-pattern")
        if isinstance(x, R.Vec):
            f.add("vector-pattern-literal")
    if isinstance(body, R.Sym):
        f.add("dotted-pattern")          # (_ . a)
    return f


def _template_features(Rl, body, t):
    """syntactic features of a template, each naming one branch of expand()/check_template_syntax"""
    f = set()
    try:
        pv = Rl.vars_of(body)
    except R.Invalid:
        pv = {}
    ev = {v for v, d in pv.items() if d >= 1}
    order = []          # (kind, payload) in traversal order, for the stale-cursor test

    def items_of(x):
        return x if isinstance(x, list) else x.items

    def visit(x, depth):
        if isinstance(x, R.Sym):
            if x.name in ev and depth < pv[x.name]:
                f.add("ellipsis-var-without-ellipsis")
            return
        if isinstance(x, R.Vec):
            if any(isinstance(y, R.Sym) and (y.name in pv or Rl.is_ell(y)) for y in _walk(x)):
                f.add("pattern-var-in-dotted-or-vector-template")
            return
        if isinstance(x, R.Dot):
            f.add("pattern-var-in-dotted-or-vector-template")
        if isinstance(x, (list, R.Dot)):
            its = items_of(x)
            for i, y in enumerate(its):
                if Rl.is_ell(y):
                    continue
                followed = i + 1 < len(its) and Rl.is_ell(its[i + 1])
                if followed:
                    inner = [s for s in _syms(y) if s in ev]
                    if any(Rl.is_ell(z) for z in _walk(y)):
                        f.add("nested-ellipsis")
                    if len(inner) != len(set(inner)):
                        f.add("var-twice-under-ellipsis")
                    if isinstance(y, (list, R.Dot)) and len(set(inner)) >= 2:
                        order.append(("multi", inner))
                    else:
                        order.append(("use", inner))
                    visit(y, depth + 1)
                else:
                    if isinstance(y, R.Sym):
                        order.append(("use", [y.name] if y.name in ev else []))
                    visit(y, depth)
            if isinstance(x, R.Dot):
                visit(x.tail, depth)

    visit(t, 0)
    # stale cursor: a variable of a multi-variable ellipsis sub-template, other than its first
    # one, is used again later in the template
    for i, (k, vs) in enumerate(order):
        if k == "multi":
            first = vs[0]
            later = {v for _, ws in order[i + 1:] for v in ws}
            if any(v != first and v in later for v in vs):
                f.add("stale-cursor")
    return f


CLASS_ORDER = ["dotted-pattern", "vector-pattern-literal", "ellipsis-tail-zero-items",
               "pattern-var-in-dotted-or-vector-template", "nested-ellipsis", "var-twice-under-ellipsis",
               "ellipsis-var-without-ellipsis", "stale-cursor"]
HANG_CLASSES = {"var-twice-under-ellipsis", "nested-ellipsis"}


def case_features(case):
    dt, ut = split_case(case)
    try:
        d = R.read(dt)
        u = R.read(ut)
    except R.ReadError:
        return set()
    info = {}
    R.expand_use(d, u, quoted_value=(case[0] == 51), info=info)
    if "bodies" not in info:
        return set()
    Rl, bodies = info["rules"], info["bodies"]
    f = set()
    sel = info.get("selected")
    if sel is None:
        # the specification selects no rule (or rejects the definition): any rule may have been taken
        for body, t in bodies:
            f |= _pattern_features(Rl, body) | _template_features(Rl, body, t)
        return f
    # rules before the selected one did not match by R7RS either; the selected rule is the one
    # transform.rs must take, unless its matcher falls through
    body, t = bodies[sel]
    f |= _pattern_features(Rl, body)
    if info.get("zero_tail"):
        f.add("ellipsis-tail-zero-items")
    f |= _template_features(Rl, body, t)
    return f


def known_class(case, impl_line, model_line):
    """a recorded class only for a case on which the property fails, and only when the rule the
    specification selects shows the syntactic feature the class names"""
    msg = oracle(case, impl_line)
    if not msg:
        return None
    f = case_features(case)
    if msg.startswith("hang"):
        for c in CLASS_ORDER:
            if c in f and c in HANG_CLASSES:
                return c
        return None
    if msg.startswith(("misexpansion", "accepted-invalid")):
        for c in CLASS_ORDER:
            if c in f:
                return c
    return None


def describe(case):
    d, u = split_case(case)
    return {"iface": {50: "Transform::try_new+transform", 51: "Vm::eval"}.get(case[0], "?"), "define": d, "use": u}


def reductions(case):
    dt, ut = split_case(case)
    try:
        d = R.read(dt)
        u = R.read(ut)
    except R.ReadError:
        return
    for u2 in R.shrinks(u):
        yield mk_case(case[0], d, u2)
    # drop a rule, shrink a pattern/template
    try:
        sr = d[2]
        k = 2 if (len(sr) > 1 and isinstance(sr[1], R.Sym)) else 1
        rules = sr[k + 1:]
        for i in range(len(rules)):
            if len(rules) > 1:
                yield mk_case(case[0], [d[0], d[1], sr[:k + 1] + rules[:i] + rules[i + 1:]], u)
        for i, r in enumerate(rules):
            for j in (0, 1):
                for s in R.shrinks(r[j]):
                    r2 = list(r)
                    r2[j] = s
                    yield mk_case(case[0], [d[0], d[1], sr[:k + 1] + rules[:i] + [r2] + rules[i + 1:]], u)
    except Exception:
        return


def neighbours(case, rng):
    out = []
    for c in itertools.islice(reductions(case), 200):
        out.append(c)
    return out
