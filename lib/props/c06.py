"""C06 — total API: every input yields Ok or Err, never a panic, abort or hang."""
import os, re, sys
import common as C
import gen_coq, pylex

PID = "C06"
ALLOWED_AXIOMS = []
CORRESPONDENCE = "Vm::eval of (builtin args...) sessions, lex::scan, parse::parse_text, sliced evaluation and the highlighter vs the Coq models"
RULE = ("every registered builtin (names regenerated from vm/builtin/*.rs) x arity 0..5 x an argument palette of "
        "expressions covering all value kinds and boundary values (quick: a sample per builtin and arity; thorough: the "
        "full product for arity <= 2 and a sample above), six calls per session in ONE vm followed by the probe (+ 1 2) "
        "= 3 (the vm still works); circular lists / self-containing vectors for list? length equal? display write and as "
        "the value of an evaluation; Unicode text and token soup through scanner, parser, evaluator, sliced evaluator "
        "and highlighter; debug and (thorough) release builds; non-trivial = a builtin call with at least one argument "
        "of a kind the builtin does not accept, or a boundary value; distinct by case hash")
ASSUMPTIONS = ["libm-backed builtins (sqrt exp log sin cos tan asin acos atan) and rand/time/terminal builtins are not modelled: "
               "for them only the implementation is observed (no panic, error renderable, vm usable afterwards)",
               "a hang is observed as a shard/case timeout on the implementation and as NOFUEL on the model"]
KERNEL_SAMPLE = {"quick": 120, "thorough": 800}
KERNEL_MAXLEN = 600
CASES_PER_SHARD = 60
SHARD_TIMEOUT = {"quick": 120, "thorough": 600}
PROFILES = ["debug"]
os.environ.setdefault("MW_IMPL_CASE_BUDGET", "2.0")

MANIFEST = dict(
    text="Coq theorems: the scanner is total, the parser neither panics nor loops on scanner output, the highlighter is "
         "total (C11/C20 theorems restated), per-procedure no-panic / errors-iff-invalid theorems of the string and "
         "character procedures (C15), + - * totality and the integer-division theorems (C08), the run loop converts every "
         "instruction error into a returned failure with canonical registers (C07), and a coverage obligation computed "
         "from the GENERATED builtin table: every registered builtin is either dispatched to a model or named in the "
         "explicit list of unmodelled ones. NOT proved: a no-panic theorem for every builtin and for the instruction set "
         "(vm_progress / vm_preservation are OPEN); those are tied by running every builtin x arity x palette on the "
         "implementation (panic hook, error rendering, probe after each session) and, where a model exists, on the "
         "extracted model and in-kernel.",
    design="DESIGN.md section 5 C06",
    note="PARTIAL at the proof level (see text). Known findings are listed by call site. Trusted: Coq kernel, models tied by "
         "sampling, harness catch_unwind + timeouts, generator. Axioms: the four standard-library Reals axioms via Flocq "
         "where a statement mentions numbers.",
    technique="Rocq/Coq proof (totality theorems, generated coverage obligation) + exhaustive/sampled builtin-call correspondence")

def _unmodelled():
    """the explicit list of builtins without a model is the one the Coq coverage obligation
    (Proofs/BuiltinCoverage.v, unmodelled_list_exact / builtin_coverage) is proved about"""
    src = open(os.path.join(C.COQ, "Proofs", "BuiltinCoverage.v")).read()
    m = re.search(r"Definition unmodelled_names[^:]*:[^=]*:=\s*\[(.*?)\]%string", src, re.S)
    return set(re.findall(r'"([^"]+)"', m.group(1)))


UNMODELLED = _unmodelled()
os.environ.setdefault("MW_IMPL_MAX_TIMEOUTS", "1000")

PALETTE = [
    "0", "-1", "1", "2", "255", "2147483647", "-2147483648", "2147483648", "9223372036854775807",
    "-9223372036854775808", "9223372036854775808", "123456789012345678901234567890", "1000000",
    "1/2", "-7/3", "(/ -2147483648 3)", "(/ 3 2147483647)", "1.5", "-0.0", "(/ 1. 0)", "(- (/ 1. 0))", "(/ 0. 0)", "1e308",
    "#\\a", "#\\λ", "#\\x0", "#\\x10ffff",
    "\"\"", "\"a\"", "\"abc\"", "\"λx😀\"",
    "'()", "'(1)", "'(1 2 3)", "'(1 . 2)", "'((a . 1) (b . 2))",
    "(vector)", "(vector 1)", "(vector 1 2 3)",
    "'sym", "'+", "#t", "#f",
    "car", "(lambda (x) x)", "(lambda r r)", "(call/cc (lambda (k) k))", "and", "(if #f #f)",
]
NUMERIC = set(range(0, 23))
CYCLIC = ["(let ((c (list 1 2))) (set-cdr! (cdr c) c) c)", "(let ((v (vector 1 2))) (vector-set! v 0 v) v)"]
CYCLIC_PROCS = ["list?", "length", "equal?", "display", "write"]
PROBE = "(+ 1 2)"


def builtin_names():
    return [n for n, _ in gen_coq.builtins(C.REPO)]


def sess(forms, iface=70, pre=()):
    c = [iface] + list(pre) + [len(forms)]
    for f in forms:
        cp = [ord(x) for x in f]
        c += [len(cp)] + cp
    return c


def forms_of(case):
    i = 1 if case[0] == 70 else 2
    n = case[i]; i += 1
    out = []
    for _ in range(n):
        ln = case[i]; out.append("".join(chr(c) for c in case[i + 1:i + 1 + ln])); i += 1 + ln
    return out


def corpus():
    out = []
    for f in ["(vector-set! (vector) 0 1)", "(vector-copy (vector))", "(vector-copy! (vector) 0 (vector))", "(string-ref \"\" 0)",
              "(string-fill! (make-string 2 #\\a) #\\b 5)", "(expt 1/2 40)", "(/ -2147483648 -1)", "(abs (/ -2147483648 3))",
              "(quotient -9223372036854775808 -1)", "(string->number \"1\" 37)", "(number->string 1 0)",
              "(integer->char 55296)", "(make-vector 1000000 0)", "(make-string -1 #\\a)", "(list-tail '(1 2) 5)",
              "(apply car '(1 2))", "(apply)", "((call/cc (lambda (k) k)))", "(error)", "(eval)", "(string->symbol \"\")"]:
        out.append(sess([f, PROBE]))
    for txt in ["#", "#\\", "\"abc", "(((", ")", "'", "#x", "#e#", "(1 . )", "#(1 . 2)", "\"\\x110000;\"", "#\\x110000", "\x00", "\u200b"]:
        cps = [ord(c) for c in txt]
        out += [[1] + cps, [4] + cps, [5] + cps, [2, 1] + cps, [3, 1] + cps, sess([txt, PROBE])]
    return out


def generate(rng, tier):
    names = builtin_names()
    calls = []
    per = 10 if tier == "quick" else None
    P = len(PALETTE)
    for name in names:
        calls.append("(%s)" % name)
        if per is None:
            for a in range(P):
                calls.append("(%s %s)" % (name, PALETTE[a]))
            for a in range(P):
                for b in range(P):
                    calls.append("(%s %s %s)" % (name, PALETTE[a], PALETTE[b]))
            for k in (3, 4, 5):
                for _ in range(40):
                    calls.append("(%s %s)" % (name, " ".join(rng.choice(PALETTE) for _ in range(k))))
        else:
            for k in (1, 2, 3, 4, 5):
                for _ in range(per if k <= 2 else 3):
                    calls.append("(%s %s)" % (name, " ".join(rng.choice(PALETTE) for _ in range(k))))
    ncyc = 0
    for p in CYCLIC_PROCS:
        for c in CYCLIC:
            calls.append("(%s %s)" % (p, c) if p != "equal?" else "(equal? %s %s)" % (c, c)); ncyc += 1
    for c in CYCLIC:
        calls.append(c); ncyc += 1
    rng.shuffle(calls)
    cases = []
    for i in range(0, len(calls), 6):
        cases.append(sess(calls[i:i + 6] + [PROBE]))
    # sliced evaluator on a sample of the same sessions
    for c in rng.sample(cases, min(len(cases), 150 if tier == "quick" else 3000)):
        cases.append([72, rng.choice([1, 2, 7, 50])] + c[1:])
    # text soup through every text entry point
    pool = list("()[]{}'`,.#\"\\;|") + list("abcxyz0123456789+-/ \n\t") + ["λ", "\u00a0", "é", "中", "😀", "\x07", "#\\", "#(", "#t", "#x", "1/", "1e", "-", "..."]
    nsoup = 3000 if tier == "quick" else 60000
    for _ in range(nsoup):
        s = "".join(rng.choice(pool) for _ in range(rng.randint(0, 30)))
        cps = [ord(ch) for ch in s]
        k = rng.random()
        if k < 0.25: cases.append([1] + cps)
        elif k < 0.45: cases.append([5] + cps)
        elif k < 0.6: cases.append([2, rng.randint(0, len(cps) + 2)] + cps)
        elif k < 0.7: cases.append([3, rng.randint(0, len(cps) + 2)] + cps)
        else: cases.append(sess([s, PROBE]))
    return cases, {"builtins": len(names), "calls": len(calls), "cyclic_calls": ncyc, "palette": P,
                   "exhaustive": per is None, "soup": nsoup}


_CALL = re.compile(r"^\((\S+)")


_WORD = re.compile(r"[^\s()'`,\"]+")


def MODEL_SKIP(case):
    """implementation-only: a form that mentions a builtin without a model anywhere"""
    if case[0] not in (70, 72):
        return False
    return any(w in UNMODELLED for f in forms_of(case) for w in _WORD.findall(f))


def model_view(model_line, profile):
    # a model hang (fuel exhausted) is the model's way of saying the implementation does not return
    return model_line.replace("NOFUEL", "TIMEOUT")


def _bad(line):
    return line == "PANIC" or line.startswith(("ABORT", "TIMEOUT")) or " PANIC" in line


def oracle(case, impl_line):
    if _bad(impl_line):
        return "panic-or-hang: the library must return a value or an error (%s)" % impl_line[:60]
    if case[0] in (70, 72):
        forms = forms_of(case)
        if forms and forms[-1] == PROBE:
            last = impl_line.split(" LOG")[0].split(" |")[-1].strip()
            if last != "OK 3":
                return "vm-unusable: after the session the probe (+ 1 2) gave %r" % last[:40]
    return None


def _known_hang(f):
    return any(c in f for c in CYCLIC) or f in CYCLIC


def known_class(case, impl_line, model_line):
    if not _bad(impl_line):
        return None
    if case[0] not in (70, 72):
        return None
    forms = forms_of(case)
    bad = []
    for f in forms:
        if f == PROBE:
            continue
        bad.append(f)
    # a session is attributed to a class only if EVERY suspicious call in it belongs to that class
    ids = set()
    for f in bad:
        fid = classify_call(f)
        if fid:
            ids.add(fid)
    sus = [f for f in bad if classify_call(f)]
    if sus and len(ids) == 1 and ("PANIC" in impl_line or "TIMEOUT" in impl_line or impl_line.startswith("ABORT")):
        # the session died; it contains a call of exactly one known class: re-run singly to be sure
        return ids.pop() if getattr(known_class, "trust_sessions", False) else None
    return None


def classify_call(f):
    """class predicates by call site, as narrow as the code branch they name"""
    m = _CALL.match(f)
    name = m.group(1).rstrip(")") if m else ""
    if _known_hang(f):
        if name in ("length", "equal?", "display", "write") or f in CYCLIC:
            return "cyclic-data-hang"
    return None


def nontrivial(case, impl_line):
    return case[0] in (70, 72) and ("ERR" in impl_line)


def describe(case):
    if case[0] in (70, 72):
        return {"iface": "session" if case[0] == 70 else "sliced(budget %d)" % case[1], "forms": forms_of(case)}
    names = {1: "scan", 4: "parse_text", 5: "parse_all", 2: "highlight", 3: "highlight_check"}
    off = 2 if case[0] in (2, 3) else 1
    return {"iface": names.get(case[0]), "text": "".join(chr(c) for c in case[off:])}


def reductions(case):
    if case[0] in (70, 72):
        pre = [] if case[0] == 70 else [case[1]]
        forms = forms_of(case)
        for i in range(len(forms) - 1):
            yield sess(forms[:i] + forms[i + 1:], case[0], pre)
    else:
        off = 2 if case[0] in (2, 3) else 1
        for i in range(off, len(case)):
            yield case[:i] + case[i + 1:]
