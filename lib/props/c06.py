"""C06 — total API: every input yields Ok or Err, never a panic, abort or hang."""
import os, re, sys
import common as C
import gen_coq, pylex, vmgen

PID = "C06"
ALLOWED_AXIOMS = []
CORRESPONDENCE = "Vm::eval of (builtin args...) sessions, lex::scan, parse::parse_text, sliced evaluation and the highlighter vs the Coq models"
RULE = ("every registered builtin (names regenerated from vm/builtin/*.rs) x arity 0..5 x an argument palette of "
        "expressions covering all value kinds and boundary values (quick: a sample per builtin and arity; thorough: all values at arity 1, 250 of the palette's pairs per builtin at arity 2, 20 tuples per higher arity), six calls per session in ONE vm followed by the probe (+ 1 2) "
        "= 3 (the vm still works); circular lists / self-containing vectors for list? length equal? display write and as "
        "the value of an evaluation; Unicode text and token soup through scanner, parser, evaluator, sliced evaluator "
        "and highlighter; debug build (the profile in which arithmetic overflow panics); non-trivial = a builtin call with at least one argument "
        "of a kind the builtin does not accept, or a boundary value; distinct by case hash")
ASSUMPTIONS = ["libm-backed builtins (sqrt exp log sin cos tan asin acos atan) and rand/time/terminal builtins are not modelled: "
               "for them only the implementation is observed (no panic, error renderable, vm usable afterwards)",
               "a hang is observed as a shard/case timeout on the implementation and as NOFUEL on the model"]
KERNEL_SAMPLE = {"quick": 120, "thorough": 800}
KERNEL_MAXLEN = 600
CASES_PER_SHARD = 60
SHARD_TIMEOUT = {"quick": 120, "thorough": 600}
PROFILES = ["debug"]
os.environ.setdefault("MW_IMPL_CASE_BUDGET", "0.25")
os.environ.setdefault("MW_MODEL_CASE_BUDGET", "0.6")

MANIFEST = dict(
    text="Coq theorems (coq/Props/C06.v), for EVERY text: the scanner returns tokens or an error; the reader (scan + "
         "parse, including Number::parse_with_exactness with the ported Ratio<i32>/BigInt/f64 literal parsers) returns a "
         "datum and the remaining text or an error, never one of the model's explicit Panic sites and never out of fuel "
         "(this proof found the reader panic on #d1/-2147483648, repaired by fix e424813); the remaining text is strictly "
         "shorter and the datum-by-datum loop of the front ends ends in END or an error; the bracket highlighter returns a "
         "result for every text and cursor. A coverage obligation computed over the builtin table GENERATED from "
         "vm/builtin/*.rs: a registered builtin whose dispatch reaches the model's 'no model' site is one of the explicitly "
         "listed names (libm, rand, time, terminal size) and the list names nothing else. Per-procedure no-panic / "
         "errors-iff-invalid theorems live in the files of C15 (strings, characters), C14 (lists, vectors), C08 (+ - * and "
         "integer division) and C07/C13 (every instruction error becomes a returned failure with canonical registers). "
         "For every expression of the C01 fragments (constants, quote, if, globals, define/set!, builtin application, lambda/closures, calls by name, recursion through a global) that has a reference value, Vm::eval never panics, for any fuel: the outcome is the value or 'out of model fuel' (C06_fragment_no_panic, C06_fragment2_no_panic, C06_fragment3_no_panic). For ANY datum and any fuel, from the booted machine and every session state, Vm::eval never panics at the VM-level sites {payload lookup, lambda / code lookup, environment slots, global slot range, continuation restore, ip decrement, stack trace} (C06_eval_no_vm_panic: an invariant - every stored value names existing payloads and code - is established by boot and preserved by the compiler, all 16 opcodes incl. apply / eval / call/cc / calling a continuation, and every builtin of the generated table); the site Heap::put_cell of a procedure / continuation / macro object belongs to that set since the fixes edf2b0d and a8af987 (findings eval-object-in-constant and eval-object-as-define-name: every cell the compiler and the builtins store is a datum; their former witnesses are errors: C06_repaired_eval_object_in_constant, C06_repaired_eval_object_as_define_name, C06_quote_constant_panic). Towards the four remaining sites, the local statements are proved (lexical load/store below the environment size are total; MOV/PUSH in well-formed code never fail through %ep; CLOSURE pairs code with an environment of exactly the map's size; ENTER after CALL never panics and gives the callee that environment; RET and argument loads are total in a frame and restore an ok %ep) together with an executable monitor of the candidate invariant that implies their preconditions and holds at every instruction boundary of 13 evaluations exercising closures, varargs, apply, call/cc re-entry, eval and tail calls (C06_discipline_example). NOT proved: four sites that need the frame discipline of compiled code (heap index through %ep, conversion of a non-value cell, usize underflow in frame arithmetic, environment slot index), and a no-panic theorem for the whole instruction set and for every builtin on ill-typed arguments (vm_progress is OPEN); that part is "
         "decided by running every builtin x arity 0..5 x a palette of all value kinds and boundary values on the "
         "implementation (panic hook, error rendering forced, probe evaluation after each session) and on the extracted "
         "model, plus token soup through scanner, reader, evaluator, sliced evaluator and highlighter.",
    design="DESIGN.md section 5 C06 and section 10",
    note="PARTIAL at the proof level (see text). Listed findings, each by call site: ratio32-overflow-panic, cyclic-data, "
         "make-vector-huge, make-string-huge, expt-astronomic. A hang is observed as a timeout (implementation) / exhausted fuel (model). "
         "Trusted: Coq kernel, models tied by sampling, harness catch_unwind + timeouts, generator. Axioms: the four "
         "standard-library Reals axioms via Flocq where a statement mentions numbers.",
    technique="Rocq/Coq proof (reader totality for all texts, generated builtin-coverage obligation) + builtin-call correspondence check")

def _unmodelled():
    """the explicit list of builtins without a model is the one the Coq coverage obligation
    (Proofs/BuiltinCoverage.v, unmodelled_list_exact / builtin_coverage) is proved about"""
    src = open(os.path.join(C.COQ, "Proofs", "BuiltinCoverage.v")).read()
    m = re.search(r"Definition unmodelled_names[^:]*:[^=]*:=\s*\[(.*?)\]%string", src, re.S)
    return set(re.findall(r'"([^"]+)"', m.group(1)))


UNMODELLED = _unmodelled()
os.environ.setdefault("MW_IMPL_MAX_TIMEOUTS", "1000")

PALETTE = [
    "0", "-1", "1", "2", "255", "2147483647", "-2147483648", "2147483648", "9223372036854775807",
    "-9223372036854775808", "9223372036854775808", "123456789012345678901234567890", "100000",
    "1/2", "-7/3", "(/ -2147483648 3)", "(/ 3 2147483647)", "1.5", "-0.0", "(/ 1. 0)", "(- (/ 1. 0))", "(/ 0. 0)", "1e308",
    "#\\a", "#\\λ", "#\\x0", "#\\x10ffff",
    "\"\"", "\"a\"", "\"abc\"", "\"λx😀\"",
    "'()", "'(1)", "'(1 2 3)", "'(1 . 2)", "'((a . 1) (b . 2))",
    "(vector)", "(vector 1)", "(vector 1 2 3)",
    "'sym", "'+", "#t", "#f",
    "car", "(lambda (x) x)", "(lambda r r)", "(call/cc (lambda (k) k))", "and", "(if #f #f)",
    # data that CONTAIN a procedure / continuation / macro object (as eval, apply, display ... may receive them)
    "(list 'quote car)", "(vector 1 car)", "(list 'quote (call/cc (lambda (k) k)))", "(list 'quasiquote (list 1 car))",
    "(list 'define (list car 'x) 1)",
]
NUMERIC = set(range(0, 23))
CYCLIC = ["(let ((c (list 1 2))) (set-cdr! (cdr c) c) c)", "(let ((v (vector 1 2))) (vector-set! v 0 v) v)"]
CYCLIC_PROCS = ["list?", "length", "equal?", "display", "write"]
PROBE = "(+ 1 2)"
GLOBALS = "(define gv (vector 1 2 3 4)) (define gl (list 1 2 3)) (define gs (make-string 3 #\\a))"


def builtin_names():
    return [n for n, _ in gen_coq.builtins(C.REPO)]


def sess(forms, iface=70, pre=()):
    c = [iface] + list(pre) + [len(forms)]
    for f in forms:
        cp = [ord(x) for x in f]
        c += [len(cp)] + cp
    return c


def forms_of(case):
    i = 1 if case[0] == 70 else 2
    n = case[i]; i += 1
    out = []
    for _ in range(n):
        ln = case[i]; out.append("".join(chr(c) for c in case[i + 1:i + 1 + ln])); i += 1 + ln
    return out


def corpus():
    out = []
    for f in ["(vector-set! (vector) 0 1)", "(vector-copy (vector))", "(vector-copy! (vector) 0 (vector))", "(string-ref \"\" 0)",
              "(string-fill! (make-string 2 #\\a) #\\b 5)", "(expt 1/2 40)", "(/ -2147483648 -1)", "(abs (/ -2147483648 3))",
              "(quotient -9223372036854775808 -1)", "(string->number \"1\" 37)", "(number->string 1 0)",
              "(integer->char 55296)", "(make-vector 1000000 0)", "(make-string -1 #\\a)", "(list-tail '(1 2) 5)",
              "(apply car '(1 2))", "(apply)", "((call/cc (lambda (k) k)))", "(error)", "(eval)", "(string->symbol \"\")"]:
        out.append(sess([f, PROBE]))
    # the witnesses of the listed findings run first
    out.append(sess(["(abs (/ -2147483648 3))", PROBE]))
    out.append(sess(["(display %s)" % CYCLIC[0], PROBE]))
    out.append(sess(["(make-vector 9223372036854775808 0)", PROBE]))
    out.append(sess(["(expt 2 2147483647)", PROBE]))
    # the panics repaired by fix edf2b0d (finding eval-object-in-constant) and fix a8af987 (eval-object-as-define-name)
    for d in ["(list 'quote car)", "(vector 1 car)", "(list 'quasiquote (list 1 car))", "(list 'quote (call/cc (lambda (k) k)))",
              "(list 'quote and)", "(list 'define (list car 'x) 1)", "(list 'define (list (call/cc (lambda (k) k)) 'x) 1)"]:
        out.append(sess(["(eval %s)" % d, PROBE]))
    out.append(sess(["(define (1 x) 1)", PROBE]))
    out.append(sess(["(make-string 9223372036854775807)", PROBE]))
    # the reader panic repaired by fix e424813
    for t in ["#d1/-2147483648", "#d-2147483648/-1", "#x-80000000/-1", "(string->number \"1/-2147483648\")"]:
        out.append(sess([t, PROBE]))
    out.append([4] + [ord(c) for c in "#d1/-2147483648"])
    for txt in ["#", "#\\", "\"abc", "(((", ")", "'", "#x", "#e#", "(1 . )", "#(1 . 2)", "\"\\x110000;\"", "#\\x110000", "\x00", "\u200b"]:
        cps = [ord(c) for c in txt]
        out += [[1] + cps, [4] + cps, [5] + cps, [2, 1] + cps, [3, 1] + cps, sess([txt, PROBE])]
    return out


def generate(rng, tier):
    names = builtin_names()
    calls = []
    per = 10 if tier == "quick" else None
    P = len(PALETTE)
    for name in names:
        calls.append("(%s)" % name)
        if per is None:
            for a in range(P):
                calls.append("(%s %s)" % (name, PALETTE[a]))
            pairs = [(a, b) for a in range(P) for b in range(P)]
            for a, b in rng.sample(pairs, 250):       # a tenth of the P*P pairs per builtin and run
                calls.append("(%s %s %s)" % (name, PALETTE[a], PALETTE[b]))
            for k in (3, 4, 5):
                for _ in range(20):
                    calls.append("(%s %s)" % (name, " ".join(rng.choice(PALETTE) for _ in range(k))))
        else:
            for k in (1, 2, 3, 4, 5):
                for _ in range(per if k <= 2 else 3):
                    calls.append("(%s %s)" % (name, " ".join(rng.choice(PALETTE) for _ in range(k))))
    # aliasing: the SAME object in two argument positions (session globals gv gl gs), small integers elsewhere
    import itertools
    nalias = 0
    for name in names:
        combos = []
        for k in (2, 3, 4, 5):
            for pos in itertools.combinations(range(k), 2):
                for obj in ("gv", "gl", "gs"):
                    combos.append((k, pos, obj))
        mutator = name.endswith("!")          # aliasing matters most where the procedure writes: enumerate fully
        if per is not None and not mutator:
            combos = rng.sample(combos, 14)
        for k, pos, obj in combos:
            fills = [[0, 1, 2]] * (k - 2)
            allf = list(itertools.product(*fills)) if fills else [()]
            if not mutator and (per is not None or len(allf) > 9):
                allf = rng.sample(allf, min(len(allf), 2 if per is not None else 3))
            for fl in allf:
                it = iter(fl)
                args = [obj if i in pos else str(next(it)) for i in range(k)]
                calls.append("(%s %s)" % (name, " ".join(args)))
                nalias += 1
    ncyc = 0
    for p in CYCLIC_PROCS:
        for c in CYCLIC:
            calls.append("(%s %s)" % (p, c) if p != "equal?" else "(equal? %s %s)" % (c, c)); ncyc += 1
    for c in CYCLIC:
        calls.append(c); ncyc += 1
    rng.shuffle(calls)
    risky = [f for f in calls if classify_call(f)]
    calls = [f for f in calls if not classify_call(f)]
    cases = []
    for i in range(0, len(calls), 6):
        cases.append(sess([GLOBALS] + calls[i:i + 6] + [PROBE]))
    # a session that dies (panic, abort, hang) says nothing about which of its calls did it, and would hide a
    # second failing call: every such session is replaced by one session per call, so that each failing call is
    # classified on its own
    exe = C.build_harness("debug")
    lines = C.run_impl(exe, cases, per_shard=CASES_PER_SHARD, timeout=SHARD_TIMEOUT[tier])
    split = 0
    kept = []
    for c, l in zip(cases, lines):
        if _bad(l):
            split += 1
            kept += [sess([GLOBALS, f, PROBE]) for f in forms_of(c)[1:-1]]
        else:
            kept.append(c)
    cases = kept + [sess([f, PROBE]) for f in risky]
    # sliced evaluator on a sample of the same sessions
    for c in rng.sample(cases, min(len(cases), 150 if tier == "quick" else 3000)):
        cases.append([72, rng.choice([1, 2, 7, 50])] + c[1:])
    # whole programs (recursion, closures, continuations re-entered after their evaluation ended - also ones captured
    # after the VM stack has grown -, failing forms): the same vm must keep accepting input
    nprog = 400 if tier == "quick" else 2000
    for _ in range(nprog):
        forms, _feat = vmgen.gen_program(rng, err_p=0.08)
        cases.append(sess(forms + [PROBE]))
    # text soup through every text entry point
    pool = list("()[]{}'`,.#\"\\;|") + list("abcxyz0123456789+-/ \n\t") + ["λ", "\u00a0", "é", "中", "😀", "\x07", "#\\", "#(", "#t", "#x", "1/", "1e", "-", "..."]
    nsoup = 3000 if tier == "quick" else 30000
    for _ in range(nsoup):
        s = "".join(rng.choice(pool) for _ in range(rng.randint(0, 30)))
        cps = [ord(ch) for ch in s]
        k = rng.random()
        if k < 0.25: cases.append([1] + cps)
        elif k < 0.45: cases.append([5] + cps)
        elif k < 0.6: cases.append([2, rng.randint(0, len(cps) + 2)] + cps)
        elif k < 0.7: cases.append([3, rng.randint(0, len(cps) + 2)] + cps)
        else: cases.append(sess([s, PROBE]))
    return cases, {"builtins": len(names), "calls": len(calls), "cyclic_calls": ncyc, "palette": P,
                   "exhaustive": per is None, "soup": nsoup, "programs": nprog, "aliasing_calls": nalias,
                   "sessions_split_into_single_calls": split, "risky_calls_run_alone": len(risky)}


_CALL = re.compile(r"^\((\S+)")


_WORD = re.compile(r"[^\s()'`,\"]+")


def MODEL_SKIP(case):
    """implementation-only: a form that mentions a builtin without a model anywhere"""
    if case[0] not in (70, 72):
        return False
    forms = forms_of(case)
    # calls of the syntactic known classes (circular data, astronomically large allocations / powers) make the model run
    # until its fuel or time is exhausted; their classification needs the implementation's answer only
    if any(classify_call(f) in ("cyclic-data", "make-vector-huge", "make-string-huge", "expt-astronomic") for f in forms):
        return True
    return any(w in UNMODELLED for f in forms for w in _WORD.findall(f))


def _bad(line):
    # NOFUEL: the sliced evaluator gave up after its slice limit (a hang seen from inside)
    return line == "PANIC" or line.startswith(("ABORT", "TIMEOUT")) or " PANIC" in line or " NOFUEL" in line


def oracle(case, impl_line):
    if _bad(impl_line):
        return "panic-or-hang: the library must return a value or an error (%s)" % impl_line[:60]
    if case[0] in (70, 72):
        forms = forms_of(case)
        if forms and forms[-1] == PROBE:
            last = impl_line.split(" LOG")[0].split(" |")[-1].strip()
            if last != "OK 3":
                return "vm-unusable: after the session the probe (+ 1 2) gave %r" % last[:40]
    return None


HUGE = {"2147483647", "2147483648", "9223372036854775807", "9223372036854775808"}
NUMBER_HEADS = {"+", "-", "*", "/", "abs", "floor", "ceiling", "truncate", "round", "expt", "pow", "quotient", "remainder",
                "modulo", "%", "min", "max", "numerator", "denominator", "exact->inexact", "inexact->exact", "=", "<", ">", "<=", ">=",
                "zero?", "positive?", "negative?", "odd?", "even?", "number->string"}


def _head_args(f):
    m = _CALL.match(f)
    return (m.group(1).rstrip(")"), f[m.end():].strip()) if m else ("", "")


def classify_call(f):
    """syntactic class predicates by call site, as narrow as the code branch they name"""
    head, rest = _head_args(f)
    if any(c in f for c in CYCLIC):
        # the native-stack / non-terminating traversals of circular data: the printer (display, write, the
        # conversion of an evaluation's value or of an error payload) and equal?/length
        if f in CYCLIC or head in ("length", "equal?", "display", "write"):
            return "cyclic-data"
        return None
    if head == "make-vector" and rest.rstrip(")").split(" ")[0] in HUGE:
        return "make-vector-huge"
    if head == "make-string" and rest.rstrip(")").split(" ")[0] in HUGE:
        return "make-string-huge"
    if head in ("expt", "pow"):
        a = rest.rstrip(")").split(" ")
        if len(a) == 2 and a[1] in ("2147483647", "2147483648") and re.match(r"^-?\d+$", a[0]) and a[0] not in ("0", "1", "-1"):
            return "expt-astronomic"
    return None


def known_class(case, impl_line, model_line):
    """only a session of ONE call (plus the probe) is ever attributed to a class"""
    if case[0] not in (70, 72) or not _bad(impl_line):
        return None
    forms = forms_of(case)
    gi = 1
    if forms and forms[0] == GLOBALS:
        forms, gi = forms[1:], 2
    if len(forms) != 2 or forms[1] != PROBE:
        return None
    f = forms[0]
    fid = classify_call(f)
    if fid:
        return fid
    head, _ = _head_args(f)
    groups = model_line.split(" LOG")[0].split(" |")
    if head in NUMBER_HEADS and impl_line == "PANIC" and len(groups) > gi and groups[gi].strip() == "PANIC":
        # the model is the port of num-rational's Ratio<i32> arithmetic: it panics exactly where an i32 overflows
        return "ratio32-overflow-panic"
    return None


def nontrivial(case, impl_line):
    return case[0] in (70, 72) and ("ERR" in impl_line)


def describe(case):
    if case[0] in (70, 72):
        return {"iface": "session" if case[0] == 70 else "sliced(budget %d)" % case[1], "forms": forms_of(case)}
    names = {1: "scan", 4: "parse_text", 5: "parse_all", 2: "highlight", 3: "highlight_check"}
    off = 2 if case[0] in (2, 3) else 1
    return {"iface": names.get(case[0]), "text": "".join(chr(c) for c in case[off:])}


def reductions(case):
    if case[0] in (70, 72):
        pre = [] if case[0] == 70 else [case[1]]
        forms = forms_of(case)
        for i in range(len(forms) - 1):
            yield sess(forms[:i] + forms[i + 1:], case[0], pre)
    else:
        off = 2 if case[0] in (2, 3) else 1
        for i in range(off, len(case)):
            yield case[:i] + case[i + 1:]
