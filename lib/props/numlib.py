"""Shared pieces of the "num" package (C08, C09): wire encoding of numbers, the
boundary palette of the properties' quantifiers, exact values (fractions.Fraction)
and parsing of canonical result lines."""
import struct
from fractions import Fraction

I32_MIN, I32_MAX = -2**31, 2**31 - 1
I64_MIN, I64_MAX = -2**63, 2**63 - 1

# ----------------------------------------------------------------- numbers
# a number is a tuple: ('fix', z) ('big', z) ('rat', n, d) ('flo', bits); ('other',) is a non-number


def sm(z):
    return [0 if z >= 0 else 1, abs(z)]


def enc(x):
    k = x[0]
    if k == 'fix':
        return [0] + sm(x[1])
    if k == 'big':
        return [1] + sm(x[1])
    if k == 'rat':
        return [2] + sm(x[1]) + sm(x[2])
    if k == 'flo':
        return [3, x[1]]
    if k == 'other':
        return [4]
    raise ValueError(x)


def dec_args(toks):
    """inverse of enc on a flat list"""
    out, i = [], 0
    while i < len(toks):
        t = toks[i]
        if t in (0, 1):
            z = toks[i + 2] * (-1 if toks[i + 1] else 1)
            out.append(('fix' if t == 0 else 'big', z)); i += 3
        elif t == 2:
            out.append(('rat', toks[i + 2] * (-1 if toks[i + 1] else 1), toks[i + 4] * (-1 if toks[i + 3] else 1))); i += 5
        elif t == 3:
            out.append(('flo', toks[i + 1])); i += 2
        elif t == 4:
            out.append(('other',)); i += 1
        else:
            raise ValueError(toks)
    return out


def f_bits(f):
    return struct.unpack('<Q', struct.pack('<d', f))[0]


def bits_f(b):
    return struct.unpack('<d', struct.pack('<Q', b))[0]


def flo_value(bits):
    """exact value of a double: Fraction, or 'nan' '+inf' '-inf'"""
    s = bits >> 63
    e = (bits >> 52) & 0x7ff
    m = bits & ((1 << 52) - 1)
    if e == 0x7ff:
        return 'nan' if m else ('-inf' if s else '+inf')
    if e == 0:
        v = Fraction(m, 2**1074)
    else:
        v = Fraction(m + 2**52) * Fraction(2)**(e - 1075)
    return -v if s else v


def value(x):
    """mathematical value; Fraction for exact numbers and finite floats"""
    k = x[0]
    if k in ('fix', 'big'):
        return Fraction(x[1])
    if k == 'rat':
        return Fraction(x[1], x[2])
    if k == 'flo':
        return flo_value(x[1])
    raise ValueError(x)


def is_exact(x):
    return x[0] in ('fix', 'big', 'rat')


def wf(x):
    """well-formed as DESIGN C08 states it"""
    k = x[0]
    if k == 'fix':
        return I64_MIN <= x[1] <= I64_MAX
    if k == 'big':
        return True
    if k == 'rat':
        n, d = x[1], x[2]
        from math import gcd
        return I32_MIN <= n <= I32_MAX and 0 < d <= I32_MAX and gcd(n, d) == 1
    return k == 'flo'


def representable(q):
    """can the exact value q be carried by some exact representation?"""
    if q.denominator == 1:
        return True
    return I32_MIN <= q.numerator <= I32_MAX and q.denominator <= I32_MAX


def reprs_of(q):
    """every exact representation that can carry the value q"""
    q = Fraction(q)
    out = []
    if q.denominator == 1:
        z = q.numerator
        if I64_MIN <= z <= I64_MAX:
            out.append(('fix', z))
        out.append(('big', z))
        if I32_MIN <= z <= I32_MAX:
            out.append(('rat', z, 1))
    elif representable(q):
        out.append(('rat', q.numerator, q.denominator))
    return out


def nearest_double(q):
    """round-to-nearest-even double of an exact rational (may be +-inf), as bits"""
    if q == 0:
        return 0
    s = 1 if q < 0 else 0
    a = abs(q)
    # find e with 2^52 <= a / 2^e < 2^53
    n, d = a.numerator, a.denominator
    e = n.bit_length() - d.bit_length() - 53
    while Fraction(n, d) / Fraction(2)**e >= 2**53:
        e += 1
    while Fraction(n, d) / Fraction(2)**e < 2**52:
        e -= 1
    if e < -1074:
        e = -1074
    scaled = Fraction(n, d) / Fraction(2)**e
    m = scaled.numerator // scaled.denominator
    rem = scaled - m
    if rem > Fraction(1, 2) or (rem == Fraction(1, 2) and m % 2 == 1):
        m += 1
    if m == 2**53:
        m //= 2
        e += 1
    if m >= 2**52:
        be = e + 1075
        if be >= 0x7ff:
            return (s << 63) | (0x7ff << 52)
        return (s << 63) | (be << 52) | (m - 2**52)
    return (s << 63) | m          # subnormal or zero


def is_double(q):
    b = nearest_double(q)
    v = flo_value(b)
    return isinstance(v, Fraction) and v == q


def next_up(bits):
    """the next double towards +inf (finite input)"""
    if bits == 0x8000000000000000:
        return 1
    if bits >> 63:
        return bits - 1
    return bits + 1


def next_down(bits):
    if bits == 0:
        return 0x8000000000000001
    if bits >> 63:
        return bits + 1
    return bits - 1


# ----------------------------------------------------------------- palette
def int_palette(rng, nrand=2):
    vals = set()
    for b in (0, 2**31, -2**31, 2**63, -2**63):
        for k in range(-3, 4):
            vals.add(b + k)
    vals.update([2**32, -2**32, 2**62, 10, -10, 7, 12, 100, -100])
    for bits in (32, 64, 128, 256):
        for _ in range(nrand):
            v = rng.getrandbits(bits) | (1 << (bits - 1))
            vals.add(v if rng.random() < 0.5 else -v)
            vals.add(rng.getrandbits(bits - 2) * (1 if rng.random() < 0.5 else -1))
    return sorted(vals)


def frac_palette(rng, nrand=6):
    M = I32_MAX
    vals = {Fraction(1, 2), Fraction(-1, 2), Fraction(1, 3), Fraction(2, 3), Fraction(3, 2), Fraction(-3, 2),
            Fraction(5, 2), Fraction(-5, 2), Fraction(7, 2), Fraction(-7, 3), Fraction(M, 2), Fraction(-M, 2),
            Fraction(1, M), Fraction(-1, M), Fraction(M, M - 1), Fraction(M - 1, M), Fraction(-M, M - 1),
            Fraction(2, M), Fraction(M - 2, 3), Fraction(I32_MIN, 3), Fraction(I32_MIN + 1, 2),
            Fraction(1, 2**30), Fraction(3, 2**30), Fraction(65537, 65536), Fraction(46341, 46340),
            Fraction(-46341, 2)}
    from math import gcd
    while len(vals) < 26 + nrand:
        n = rng.randint(1, M) if rng.random() < 0.5 else rng.randint(1, 1 << rng.randint(1, 31))
        d = rng.randint(2, M) if rng.random() < 0.5 else rng.randint(2, 1 << rng.randint(2, 31))
        n, d = min(n, M), min(d, M)
        q = Fraction(n if rng.random() < 0.6 else -n, d)
        if q.denominator != 1:
            vals.add(q)
    return sorted(vals)


def exact_palette(rng, nrand_int=2, nrand_frac=6):
    """every palette value in every representation that can carry it"""
    out = []
    for z in int_palette(rng, nrand_int):
        out += reprs_of(z)
    for q in frac_palette(rng, nrand_frac):
        out += reprs_of(q)
    return out


def float_palette(rng, exact_vals):
    """C09: integers near 2^53 and 2^63, +-0.0, subnormals, +-inf, neighbours of exact palette members"""
    bits = set()
    for f in (0.0, -0.0, 1.0, -1.0, 0.5, -0.5, 1.5, 2.5, -2.5, 0.1, 1 / 3, 1e300, -1e300, 1e-300,
              2.0**53, 2.0**53 - 1, 2.0**53 + 2, -2.0**53, 2.0**63, -2.0**63, 2.0**64, 2.0**31, -2.0**31,
              2.0**31 - 1, 2147483648.5, 2.0**62, 2.0**127, 2.0**128, 1.7976931348623157e308, 5e-324, -5e-324,
              2.2250738585072014e-308, 2.225073858507201e-308, float('inf'), float('-inf')):
        bits.add(f_bits(f))
    for b in list(bits):
        v = flo_value(b)
        if isinstance(v, Fraction):
            bits.add(next_up(b)); bits.add(next_down(b))
    for q in exact_vals:
        b = nearest_double(q)
        v = flo_value(b)
        bits.add(b)
        if isinstance(v, Fraction):
            bits.add(next_up(b)); bits.add(next_down(b))
    return [('flo', b) for b in sorted(bits)]


# ----------------------------------------------------------------- result lines
def model_view(ml, profile):
    """the model prints `debug-line|release-line` when the profiles differ"""
    if "|" in ml:
        d, r = ml.split("|", 1)
        return d if profile == "debug" else r
    return ml


def parse_num_tokens(t):
    """[' fix', '5'] -> number tuple, from the tokens after OK"""
    if len(t) != 2:
        return None
    k, v = t
    try:
        if k in ('fix', 'big'):
            return (k, int(v))
        if k == 'rat':
            n, d = v.split('/')
            return ('rat', int(n), int(d))
        if k == 'flo':
            return ('flo', 0x7ff8000000000000 if v == 'nan' else int(v, 16))
    except ValueError:
        return None
    return None


def parse_result(line):
    """('num', x) | ('bool', b) | ('none',) | ('ord', s) | ('err',) | ('panic',) | ('libm',) | ('bad', line)"""
    if line == "PANIC" or line.startswith(("ABORT", "TIMEOUT")):
        return ('panic',)
    if line == "ERR":
        return ('err',)
    if line == "LIBM":
        return ('libm',)
    if not line.startswith("OK "):
        return ('bad', line)
    t = line[3:].split(" ")
    if t == ['none']:
        return ('none',)
    if t in (['true'], ['#t']):
        return ('bool', True)
    if t in (['false'], ['#f']):
        return ('bool', False)
    if t[0] in ('Less', 'Equal', 'Greater') and len(t) == 1:
        return ('ord', t[0])
    x = parse_num_tokens(t)
    if x is None:
        return ('bad', line)
    return ('num', x)


def show(x):
    k = x[0]
    if k in ('fix', 'big'):
        return "%s:%d" % (k, x[1])
    if k == 'rat':
        return "rat:%d/%d" % (x[1], x[2])
    if k == 'flo':
        v = flo_value(x[1])
        return "flo:%s(%#x)" % (repr(bits_f(x[1])), x[1])
    return "#t"


BIN_OPS = ["+", "-", "*", "/", "quotient", "%", "modulo", "==", "partial_cmp", "<", "<=", ">", ">="]
UN_OPS = ["abs", "floor", "ceil", "truncate", "round", "numerator", "denominator", "to_exact", "to_inexact",
          "is_integer", "to_i64", "to_u64", "to_u32", "to_usize", "to_f64", "is_zero", "pow"]
PROCS = ["+", "-", "*", "/", "=", "<", ">", "<=", ">=", "min", "max", "zero?", "positive?", "negative?",
         "odd?", "even?", "abs", "quotient", "remainder", "modulo", "floor", "ceiling", "truncate",
         "round", "numerator", "denominator", "expt", "exact->inexact", "inexact->exact"]


def describe(case):
    iface = case[0]
    try:
        if iface == 10:
            a, b = dec_args(case[2:])
            return {"iface": "Number api", "op": BIN_OPS[case[1]], "a": show(a), "b": show(b)}
        if iface == 11:
            if case[1] == 16:
                return {"iface": "Number api", "op": "pow", "exp": case[2], "a": show(dec_args(case[3:])[0])}
            return {"iface": "Number api", "op": UN_OPS[case[1]], "a": show(dec_args(case[2:])[0])}
        if iface == 12:
            return {"iface": "Vm::eval", "expr": "(%s %s)" % (PROCS[case[1]], " ".join(show(a) for a in dec_args(case[2:])))}
        if iface == 13:
            return {"iface": "Rational32", "op": case[1], "raw": case[2:]}
        if iface == 14:
            nums = dec_args(case[3:])
            return {"iface": "Number api, all representations", "op": BIN_OPS[case[1]],
                    "a": [show(x) for x in nums[:case[2]]], "b": [show(x) for x in nums[case[2]:]]}
        if iface == 15:
            a, b = dec_args(case[1:])
            return {"iface": "Number api == partial_cmp < <= > >=", "a": show(a), "b": show(b)}
        if iface == 16:
            return {"iface": "Vm::eval of = < > <= >= min max", "args": [show(x) for x in dec_args(case[1:])]}
        if iface == 17:
            return {"iface": "Vm::eval of = < > <= >= on (a b) (b c) (a c) (a b c)",
                    "args": [show(x) for x in dec_args(case[1:])]}
    except Exception as e:  # noqa
        return {"raw": case, "error": repr(e)}
    return {"raw": case}
