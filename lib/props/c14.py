"""C14 — list and vector procedures match their specification and preserve identity.

Cases are operation sequences over a pool of objects (interface 40, see
harness/src/area_lv.rs) and `list?` on circular lists (interface 41).  The oracle is an
independent reference store model of R7RS (Python objects with identity): it replays the
sequence and checks, after every operation, the status, the written form of every pool
object and the aliasing probe the implementation printed."""
import os
import re
import sys
sys.setrecursionlimit(20000)

PID = "C14"
# 14 of the theorems mention a list builtin that renders an error payload (car cdr list-tail list-ref
# list->vector reverse append ... through fail_cell -> Heap.get_as_cell -> Datum.display -> NumFmt.num_display):
# since the number-formatting package landed, num_display (the shortest-round-trip float printer) is defined with
# Flocq functions that carry the standard library's real-number axioms, so `Print Assumptions` reports them for
# every statement that mentions such a builtin.  The proofs in Proofs/ListVecProofs.v add none (the other 29
# theorems — vectors, pairs, equal?, predicates, identity — are Closed under the global context).
ALLOWED_AXIOMS = ["ClassicalDedekindReals.sig_not_dec", "ClassicalDedekindReals.sig_forall_dec",
                  "FunctionalExtensionality.functional_extensionality_dep", "Classical_Prop.classic"]
PROFILES = ["debug"]
KERNEL_SAMPLE = {"quick": 150, "thorough": 1500}
KERNEL_MAXLEN = 400
CORRESPONDENCE = ("vm/builtin/list.rs, vm/builtin/vector.rs, vm/vector.rs, vm/compare.rs, vm/builtin/predicate.rs and "
                  "prelude.scm:147-258 vs Model/ListVec.v + Model/PreludeLists.v (interface 40/41)")
RULE = ("operation sequences of 1..12 operations over a pool of 2..6 objects built first (quoted proper/improper lists, "
        "lists sharing tails through cons/list/append of earlier pool objects, association lists, vectors incl. empty and "
        "nested and vectors holding pool lists, aliases, scalars); every result joins the pool; operands are pool "
        "references or literals; indices from {-1,0,1,len-1,len,len+1,random,10^6,2^62, 1.0}; memq/memv/assq/assv keys only "
        "symbols, booleans, '(), characters, exact integers; vector-copy without its end argument; ~15% of the operands "
        "ill-typed; sequences creating circular structure are discarded (interface 41 covers list? on circular lists); "
        "non-trivial = at least one printed operation succeeded and the sequence mutates or retrieves through an alias; "
        "distinct by case hash")
ASSUMPTIONS = [
    "eq?/eqv? on two distinct pairs with identical car and cdr cells and on two strings with equal contents answer #t in "
    "marwood (pinned by tests/predicate.rs); the aliasing probe therefore requires #t for the same object and accepts "
    "either answer for distinct pairs/strings; identity of pairs is checked through mutation instead",
    "results R7RS leaves unspecified (set-car! ... for-each, make-vector without fill) are not compared",
    "vector-fill! is exercised with two arguments only (marwood does not implement the optional range)",
]
MANIFEST = dict(
    text="43 Coq theorems over a hand-written model of the list/vector builtins (Model/ListVec.v, the repaired code): per "
         "builtin refinement to an abstract store of pair and vector locations (abs follows marwood's double indirection, a "
         "vector is identified by its Rc id), frame (pres / explicit 'every other location' clauses), store/retrieve "
         "identity through every alias from the invariant values_are_refs, append/reverse/vector->list allocate fresh "
         "lists (aprefix), equal_spec on finite plain data, list? on finite chains and on circular lists; tied to /repo by 3-way differential "
         "runs (implementation / extracted model / vm_compute) of operation sequences over an aliased pool, with an "
         "independent Python reference store as oracle after every operation.",
    design="DESIGN.md section 5 C14",
    note="Trusted: Coq kernel, the hand-written model (sampling correspondence), extraction+OCaml driver (kernel "
         "cross-check on a sub-sample), Rust harness (incl. its Scheme node-budget probe), Python reference store. "
         "Axioms: the proofs use none; 29 theorems are Closed under the global context, the 14 whose statement mentions a "
         "builtin that renders an error payload (fail_cell -> Heap.get_as_cell -> Datum.display -> NumFmt.num_display) "
         "inherit the standard-library real-number axioms (sig_not_dec, sig_forall_dec, functional_extensionality_dep, "
         "classic) from the Flocq-based definition of num_display in the shared number-formatting model. Model/PreludeLists.v is a HAND model of "
         "prelude.scm:147-258 validated by the correspondence and the reference oracle; about it: list, length, cadr, member, assoc (first "
         "tail / first pair whose car is equal? to the key, or #f), memv/memq/assv/assq (against the machine's own eqv? decision) have "
         "theorems, as have caar cdar cddr and map / for-each for any number of lists (the calls of the procedure argument happen row by row in order and stop at the shortest list; map returns a fresh proper list of the results; for-each returns void), under an explicit hypothesis on the procedure argument. equal_spec assumes "
         "interned symbols (C18). eq?/eqv? on distinct pairs with identical field cells / on equal strings are pinned to "
         "#t by the suite and not claimed. Circular data (length, equal?, display, error rendering) is C06's.",
    technique="Rocq/Coq proof (refinement to an abstract store, invariants, induction over finite chains) + "
              "model/implementation correspondence check")

OPS = ["", "cons", "car", "cdr", "set-car!", "set-cdr!", "list", "length", "append", "reverse",
       "list-tail", "list-ref", "memq", "memv", "member", "assq", "assv", "assoc", "map", "for-each",
       "list?", "vector", "make-vector", "vector-length", "vector-ref", "vector-set!", "vector-fill!",
       "vector->list", "list->vector", "vector-copy", "vector-copy!", "equal?", "eq?", "eqv?",
       "pair?", "null?", "vector?", "cadr", "cddr", "caar", "cdar", "not", "boolean?", "char?",
       "symbol?", "string?", "procedure?", "number?"]
OPID = {n: i for i, n in enumerate(OPS) if n}
I64_MAX = 2 ** 63 - 1


# ===================================================================== values
class Pair:
    __slots__ = ("car", "cdr")
    def __init__(self, a, d): self.car, self.cdr = a, d
class Vec:
    __slots__ = ("items",)
    def __init__(self, items): self.items = items
class Str:
    __slots__ = ("text",)
    def __init__(self, t): self.text = t
class Sym:
    __slots__ = ("name",)
    def __init__(self, n): self.name = n
class Char:
    __slots__ = ("c",)
    def __init__(self, c): self.c = c
class Flo:
    __slots__ = ("bits",)
    def __init__(self, b): self.bits = b
class Proc:
    __slots__ = ("op",)
    def __init__(self, op): self.op = op
class _Tok:
    def __init__(self, n): self.n = n
    def __repr__(self): return self.n
    def __copy__(self): return self
    def __deepcopy__(self, memo): return self
NIL, VOID, UNSPEC = _Tok("NIL"), _Tok("VOID"), _Tok("UNSPEC")


class SErr(Exception):
    """R7RS (or the property) requires an error to be signalled here"""
class Either(Exception):
    """R7RS leaves the situation open: an error or the carried value are both accepted"""
    def __init__(self, v): self.v = v
class Reject(Exception):
    """generator only: the operation would create circular or oversized data"""


def is_int(v): return isinstance(v, int) and not isinstance(v, bool)


def eqv(a, b):
    if isinstance(a, bool) or isinstance(b, bool):
        return isinstance(a, bool) and isinstance(b, bool) and a == b
    if is_int(a) or is_int(b):
        return is_int(a) and is_int(b) and a == b
    if isinstance(a, Sym): return isinstance(b, Sym) and a.name == b.name
    if isinstance(a, Char): return isinstance(b, Char) and a.c == b.c
    if isinstance(a, Flo): return isinstance(b, Flo) and a.bits == b.bits
    return a is b


def equal(a, b):
    while True:
        if isinstance(a, Pair) and isinstance(b, Pair):
            if not equal(a.car, b.car): return False
            a, b = a.cdr, b.cdr
            continue
        if isinstance(a, Vec) and isinstance(b, Vec):
            return len(a.items) == len(b.items) and all(equal(x, y) for x, y in zip(a.items, b.items))
        if isinstance(a, Str) and isinstance(b, Str): return a.text == b.text
        return eqv(a, b)


def esc(cps):
    return "".join(chr(c) if 32 <= c <= 126 and c != 92 else "\\u{%x}" % c for c in cps)


def canon(v, out):
    if v is True: out.append("#t")
    elif v is False: out.append("#f")
    elif is_int(v): out.append(str(v))
    elif isinstance(v, Pair):
        out.append("(")
        first = True
        while isinstance(v, Pair):
            if not first: out.append(" ")
            first = False
            canon(v.car, out)
            v = v.cdr
        if v is not NIL:
            out.append(" . "); canon(v, out)
        out.append(")")
    elif v is NIL: out.append("()")
    elif isinstance(v, Vec):
        out.append("#(")
        for i, x in enumerate(v.items):
            if i: out.append(" ")
            canon(x, out)
        out.append(")")
    elif isinstance(v, Sym): out.append(esc([ord(c) for c in v.name]))
    elif isinstance(v, Char): out.append("#\\x%x" % v.c)
    elif isinstance(v, Flo): out.append("#i%x" % v.bits)
    elif isinstance(v, Str): out.append('"' + esc(v.text) + '"')
    elif isinstance(v, Proc): out.append("#<proc>")
    elif v is VOID: out.append("#<void>")
    else: out.append("#<?>")


def show(v):
    out = []
    canon(v, out)
    return "".join(out)


def size_acyclic(v, limit=400):
    """number of pairs/vectors reachable, counted as a tree (the harness probe %sz counts the same way);
    raises Reject on a cycle or above the limit"""
    path, count = set(), [0]

    def go(x):
        if not isinstance(x, (Pair, Vec)):
            return
        if id(x) in path:
            raise Reject("cycle")
        count[0] += 1
        if count[0] > limit:
            raise Reject("big")
        path.add(id(x))
        if isinstance(x, Vec):
            for y in x.items:
                go(y)
        else:
            go(x.car)
            go(x.cdr)
        path.discard(id(x))
    go(v)
    return count[0]


# ========================================================== reference procedures
def from_datum(d):
    k = d[0]
    if k in ("int", "big"): return d[1]      # "big": the same integer held as a BigInt by the implementation
    if k == "bool": return d[1]
    if k == "char": return Char(d[1])
    if k == "sym": return Sym(chr(97 + d[1]))
    if k == "nil": return NIL
    if k == "flo": return Flo(d[1])
    if k == "str": return Str(list(d[1]))
    if k == "list":
        t = from_datum(d[2])
        for x in reversed(d[1]):
            t = Pair(from_datum(x), t)
        return t
    if k == "vec": return Vec([from_datum(x) for x in d[1]])
    raise ValueError(d)


def mklist(xs, tail=NIL):
    for x in reversed(xs):
        tail = Pair(x, tail)
    return tail


def need_pair(x):
    if not isinstance(x, Pair): raise SErr("pair expected")
    return x
def need_vec(x):
    if not isinstance(x, Vec): raise SErr("vector expected")
    return x
def need_index(k):
    if not is_int(k) or k < 0: raise SErr("index expected")
    return k


def proper_elems(l, what="list"):
    xs = []
    while isinstance(l, Pair):
        xs.append(l.car); l = l.cdr
    if l is not NIL: raise SErr("improper list where a %s is required" % what)
    return xs


def arity(args, lo, hi=None):
    if len(args) < lo or (hi is not None and len(args) > hi): raise SErr("arity")


def r_mem(cmp):
    def f(args):
        arity(args, 2, 2)
        x, l = args
        while isinstance(l, Pair):
            if cmp(l.car, x): return l
            l = l.cdr
        if l is not NIL: raise SErr("improper list")
        return False
    return f


def r_ass(cmp):
    def f(args):
        arity(args, 2, 2)
        x, l = args
        odd = False
        while isinstance(l, Pair):
            e = l.car
            if isinstance(e, Pair):
                if cmp(e.car, x):
                    if odd: raise Either(e)
                    return e
            else:
                odd = True            # not an association list: R7RS leaves it open
            l = l.cdr
        if l is not NIL: raise SErr("improper list")
        if odd: raise Either(False)
        return False
    return f


def r_list_tail(args):
    arity(args, 2, 2)
    l, k = args
    need_index(k)
    if not isinstance(l, Pair) and l is not NIL:
        if k == 0: raise Either(l)
        raise SErr("not a list")
    for _ in range(k):
        if not isinstance(l, Pair): raise SErr("index out of range")
        l = l.cdr
    return l


def r_list_ref(args):
    arity(args, 2, 2)
    l, k = args
    need_index(k)
    for _ in range(k):
        if not isinstance(l, Pair): raise SErr("index out of range")
        l = l.cdr
    return need_pair(l).car


def r_append(args):
    if not args: return NIL
    res = args[-1]
    for l in reversed(args[:-1]):
        res = mklist(proper_elems(l), res)
    return res


def r_vector_copy(args):
    if len(args) > 2: raise Reject("vector-copy's end argument is excluded by the property's quantifier")
    arity(args, 1, 2)
    v = need_vec(args[0])
    start = need_index(args[1]) if len(args) > 1 else 0
    if start > len(v.items): raise SErr("index out of range")
    return Vec(list(v.items[start:]))


def r_vector_copy_mut(args):
    arity(args, 3, 5)
    to, at, frm = need_vec(args[0]), need_index(args[1]), need_vec(args[2])
    start = need_index(args[3]) if len(args) > 3 else 0
    end = need_index(args[4]) if len(args) > 4 else len(frm.items)
    if at > len(to.items) or end > len(frm.items) or start > end: raise SErr("index out of range")
    if len(to.items) - at < end - start: raise SErr("does not fit")
    vals = list(frm.items[start:end])
    to.items[at:at + len(vals)] = vals
    return UNSPEC


def r_make_vector(args):
    arity(args, 1, 2)
    k = need_index(args[0])
    if k > 100000: raise Reject("big")
    if len(args) == 2: return Vec([args[1]] * k)
    return Vec([0] * k)       # unspecified contents; marwood fills with 0 (generated only with k = 0 or a fill)


def r_vector_ref(args):
    arity(args, 2, 2)
    v, k = need_vec(args[0]), need_index(args[1])
    if k >= len(v.items): raise SErr("index out of range")
    return v.items[k]


def r_vector_set(args):
    arity(args, 3, 3)
    v, k = need_vec(args[0]), need_index(args[1])
    if k >= len(v.items): raise SErr("index out of range")
    v.items[k] = args[2]
    return UNSPEC


def r_vector_fill(args):
    if len(args) > 2: raise Reject("optional range of vector-fill! is not implemented by marwood: not exercised")
    arity(args, 2, 2)
    v = need_vec(args[0])
    v.items[:] = [args[1]] * len(v.items)
    return UNSPEC


def r_vector_to_list(args):
    if len(args) > 1: raise Reject("optional range of vector->list is not implemented by marwood: not exercised")
    arity(args, 1, 1)
    return mklist(list(need_vec(args[0]).items))


def r_set_car(args):
    arity(args, 2, 2)
    need_pair(args[0]).car = args[1]
    return UNSPEC


def r_set_cdr(args):
    arity(args, 2, 2)
    need_pair(args[0]).cdr = args[1]
    return UNSPEC


def r_is_list(args):
    arity(args, 1, 1)
    l, seen = args[0], set()
    while isinstance(l, Pair):
        if id(l) in seen: return False
        seen.add(id(l)); l = l.cdr
    return l is NIL


def one(f):
    def g(args):
        arity(args, 1, 1)
        return f(args[0])
    return g


def cxr(path):
    def g(args):
        arity(args, 1, 1)
        x = args[0]
        for step in reversed(path):
            x = need_pair(x).car if step == "a" else need_pair(x).cdr
        return x
    return g


def r_map(args, each=False):
    arity(args, 2)
    f, lists = args[0], list(args[1:])
    fn = REF.get(f.op) if isinstance(f, Proc) else None
    out = []
    while True:
        if any(l is NIL for l in lists): break
        if any(not isinstance(l, Pair) for l in lists): raise SErr("improper list")
        if fn is None: raise SErr("not a procedure")
        try:
            r = fn([l.car for l in lists])
        except Either:
            raise Reject("open situation inside map")
        out.append(r)
        lists = [l.cdr for l in lists]
    if each: return UNSPEC
    if any(x is UNSPEC for x in out): return UNSPEC
    return mklist(out)


REF = {
    "cons": lambda a: (arity(a, 2, 2), Pair(a[0], a[1]))[1],
    "car": cxr("a"), "cdr": cxr("d"), "cadr": cxr("ad"), "cddr": cxr("dd"), "caar": cxr("aa"), "cdar": cxr("da"),
    "set-car!": r_set_car, "set-cdr!": r_set_cdr,
    "list": lambda a: mklist(list(a)),
    "length": lambda a: (arity(a, 1, 1), len(proper_elems(a[0])))[1],
    "append": r_append,
    "reverse": lambda a: (arity(a, 1, 1), mklist(list(reversed(proper_elems(a[0])))))[1],
    "list-tail": r_list_tail, "list-ref": r_list_ref,
    "memq": r_mem(eqv), "memv": r_mem(eqv), "member": r_mem(equal),
    "assq": r_ass(eqv), "assv": r_ass(eqv), "assoc": r_ass(equal),
    "map": lambda a: r_map(a, False), "for-each": lambda a: r_map(a, True),
    "list?": r_is_list,
    "vector": lambda a: Vec(list(a)),
    "make-vector": r_make_vector,
    "vector-length": one(lambda v: len(need_vec(v).items)),
    "vector-ref": r_vector_ref, "vector-set!": r_vector_set, "vector-fill!": r_vector_fill,
    "vector->list": lambda a: r_vector_to_list(a),
    "list->vector": one(lambda l: Vec(proper_elems(l))),
    "vector-copy": r_vector_copy, "vector-copy!": r_vector_copy_mut,
    "equal?": lambda a: (arity(a, 2, 2), equal(a[0], a[1]))[1],
    "eq?": lambda a: (arity(a, 2, 2), eqv(a[0], a[1]))[1],
    "eqv?": lambda a: (arity(a, 2, 2), eqv(a[0], a[1]))[1],
    "pair?": one(lambda v: isinstance(v, Pair)), "null?": one(lambda v: v is NIL),
    "vector?": one(lambda v: isinstance(v, Vec)),
    "not": one(lambda v: v is False), "boolean?": one(lambda v: isinstance(v, bool)),
    "char?": one(lambda v: isinstance(v, Char)), "symbol?": one(lambda v: isinstance(v, Sym)),
    "string?": one(lambda v: isinstance(v, Str)), "procedure?": one(lambda v: isinstance(v, Proc)),
    "number?": one(lambda v: is_int(v) or isinstance(v, Flo)),
}
MUTATORS = {"set-car!", "set-cdr!", "vector-set!", "vector-fill!", "vector-copy!", "for-each"}


class Ref:
    """the reference store: the pool and the replay of one step"""
    def __init__(self):
        self.pool = []

    def operand(self, o):
        if o[0] == "p":
            return self.pool[o[1]]
        if o[0] == "fun":
            return Proc(OPS[o[1]])
        return from_datum(o)

    def step(self, op, operands):
        """returns ('OK', value) | ('ERR', None) | ('EITHER', value)"""
        try:
            args = [self.operand(o) for o in operands]
        except IndexError:
            return ("ERR", None)
        if any(a is UNSPEC for a in args):
            raise Reject("unspecified operand")
        if op == 0:
            return ("OK", args[0])
        try:
            return ("OK", REF[OPS[op]](args))
        except SErr:
            return ("ERR", None)
        except Either as e:
            return ("EITHER", e.v)


# ================================================================== wire codec
def enc_datum(d, out):
    k = d[0]
    if k == "int": out += [1, 1 if d[1] < 0 else 0, abs(d[1])]
    elif k == "big": out += [11, 1 if d[1] < 0 else 0, abs(d[1])]
    elif k == "bool": out += [2, 1 if d[1] else 0]
    elif k == "char": out += [3, d[1]]
    elif k == "sym": out += [4, d[1]]
    elif k == "nil": out += [5]
    elif k == "flo": out += [6, d[1]]
    elif k == "str": out += [7, len(d[1])] + list(d[1])
    elif k == "list":
        out += [8, len(d[1])]
        for x in d[1]: enc_datum(x, out)
        enc_datum(d[2], out)
    elif k == "vec":
        out += [9, len(d[1])]
        for x in d[1]: enc_datum(x, out)
    else: raise ValueError(d)


def enc_operand(o, out):
    if o[0] == "p": out += [0, o[1]]
    elif o[0] == "fun": out += [10, o[1]]
    else: enc_datum(o, out)


def encode(iface, npool, steps):
    out = [iface, npool]
    for op, operands in steps:
        out += [op, len(operands)]
        for o in operands: enc_operand(o, out)
    return out


def dec_datum(c, i):
    k = c[i]
    if k == 1: return ("int", -c[i + 2] if c[i + 1] == 1 else c[i + 2]), i + 3
    if k == 11: return ("big", -c[i + 2] if c[i + 1] == 1 else c[i + 2]), i + 3
    if k == 2: return ("bool", c[i + 1] != 0), i + 2
    if k == 3: return ("char", c[i + 1]), i + 2
    if k == 4: return ("sym", c[i + 1]), i + 2
    if k == 5: return ("nil",), i + 1
    if k == 6: return ("flo", c[i + 1]), i + 2
    if k == 7:
        n = c[i + 1]
        return ("str", tuple(c[i + 2:i + 2 + n])), i + 2 + n
    if k == 8:
        n, j, xs = c[i + 1], i + 2, []
        for _ in range(n):
            x, j = dec_datum(c, j); xs.append(x)
        t, j = dec_datum(c, j)
        if not xs: return t, j
        return ("list", xs, t), j
    if k == 9:
        n, j, xs = c[i + 1], i + 2, []
        for _ in range(n):
            x, j = dec_datum(c, j); xs.append(x)
        return ("vec", xs), j
    raise ValueError("bad datum code %r" % k)


def decode(case):
    iface, npool, i, steps = case[0], case[1], 2, []
    while i < len(case):
        op, n, i = case[i], case[i + 1], i + 2
        operands = []
        for _ in range(n):
            if case[i] == 0: operands.append(("p", case[i + 1])); i += 2
            elif case[i] == 10: operands.append(("fun", case[i + 1])); i += 2
            else:
                d, i = dec_datum(case, i); operands.append(d)
        steps.append((op, operands))
    return iface, npool, steps


def datum_text(d):
    k = d[0]
    if k == "int": return str(d[1])
    if k == "big": return "%d[held as a bignum]" % d[1]
    if k == "bool": return "#t" if d[1] else "#f"
    if k == "char": return "#\\x%x" % d[1]
    if k == "sym": return chr(97 + d[1])
    if k == "nil": return "()"
    if k == "flo":
        import struct
        return repr(struct.unpack("<d", struct.pack("<Q", d[1]))[0])
    if k == "str": return '"%s"' % esc(d[1])
    if k == "list":
        t = "" if d[2] == ("nil",) else " . " + datum_text(d[2])
        return "(" + " ".join(datum_text(x) for x in d[1]) + t + ")"
    if k == "vec": return "#(" + " ".join(datum_text(x) for x in d[1]) + ")"


def operand_text(o):
    if o[0] == "p": return "p%d" % o[1]
    if o[0] == "fun": return OPS[o[1]]
    t = datum_text(o)
    return t if o[0] in ("int", "big", "bool", "char", "flo", "str") else "'" + t


def describe(case):
    try:
        iface, npool, steps = decode(case)
    except Exception as e:  # noqa
        return {"undecodable": str(e)}
    lines = []
    for k, (op, operands) in enumerate(steps):
        body = operand_text(operands[0]) if op == 0 else "(%s)" % " ".join([OPS[op]] + [operand_text(o) for o in operands])
        lines.append("(define p%d %s)%s" % (k, body, "   ; pool" if k < npool else ""))
    return {"iface": iface, "silent_pool_steps": npool, "program": lines}


# ===================================================================== oracle
SEG = re.compile(r" (\d+)=")


def parse_impl(line):
    """-> list of (status, {i: form}, eqrow) per printed step, final matrix rows or None, tail status"""
    if not line.startswith("S"):
        return None
    parts = line.split(" | ")
    steps, final, stop = [], None, None
    for p in parts[1:]:
        if p in ("PANIC", "NOFUEL") or p.startswith("TIMEOUT"):
            stop = p
            break
        if p.startswith("F"):
            final = p[1:].split(" ")[1:] if len(p) > 1 else []
            continue
        m = re.match(r"(OK|ERR)(.*) E([01?]*)$", p, re.S)
        if not m:
            return None
        status, mid, row = m.groups()
        forms = {}
        pieces = SEG.split(mid)
        for j in range(1, len(pieces), 2):
            forms[int(pieces[j])] = pieces[j + 1]
        steps.append((status, forms, row))
    return steps, final, stop


def same_object(a, b):
    """True/False when R7RS (plus the pinned suite) fixes eq?, None when either answer is accepted"""
    if a is UNSPEC or b is UNSPEC: return None
    if isinstance(a, Proc) or isinstance(b, Proc): return None
    if a is b: return True
    if isinstance(a, Pair) and isinstance(b, Pair): return None
    if isinstance(a, Str) and isinstance(b, Str): return None
    return eqv(a, b)


def oracle(case, impl_line):
    if impl_line.startswith(("PANIC", "ABORT", "TIMEOUT", "STACK")) or impl_line == "":
        return "panic: the implementation panicked, aborted or hung (%s)" % impl_line[:40]
    try:
        iface, npool, steps = decode(case)
    except Exception as e:  # noqa
        return None if impl_line == "BADCASE" else "malformed: undecodable case"
    if impl_line == "BADCASE":
        return "malformed: harness rejected a well-formed case"
    if iface == 41:
        return oracle41(npool, steps, impl_line)
    parsed = parse_impl(impl_line)
    if parsed is None:
        return "malformed: unparsable result line"
    psteps, final, stop = parsed
    if stop:
        return "panic: %s in step %d" % (stop, npool + len(psteps))
    ref = Ref()
    shown = {}
    for k, (op, operands) in enumerate(steps):
        try:
            st, val = ref.step(op, operands)
        except Reject:
            return None            # outside the generated domain (hand-written replay): nothing to say
        printed = k >= npool
        if printed:
            if k - npool >= len(psteps):
                return "malformed: missing step %d" % k
            istatus, forms, row = psteps[k - npool]
        else:
            istatus, forms, row = None, {}, ""
        name = OPS[op] if op else "quote"
        if printed:
            if st == "OK" and istatus != "OK":
                return "spurious-error: (%s ...) in step %d has a specified result but an error was reported" % (name, k)
            if st == "ERR" and istatus != "ERR":
                return "missing-error: (%s ...) in step %d must report an error (index out of range / improper list / wrong type) but answered" % (name, k)
            if st == "EITHER":
                st = istatus
        else:
            if st == "EITHER":
                return None
        ref.pool.append(val if st == "OK" else False)
        if not printed:
            continue
        shown.update(forms)
        for i, v in enumerate(ref.pool):
            if v is UNSPEC:
                continue
            try:
                size_acyclic(v, 1000)
            except Reject:
                return None
            exp = show(v)
            got = shown.get(i)
            if got != exp:
                if i == k:
                    return "wrong-result: (%s ...) in step %d answered %s, R7RS: %s" % (name, k, got, exp)
                return "wrong-contents: after (%s ...) in step %d object p%d reads %s, reference store: %s" % (name, k, i, got, exp)
        if len(row) != k:
            return "malformed: aliasing row of step %d has %d entries" % (k, len(row))
        for i in range(k):
            s = same_object(ref.pool[k], ref.pool[i])
            if s is None: continue
            if row[i] != ("1" if s else "0"):
                return "aliasing: after step %d (eq? p%d p%d) is %s, reference store: %s" % (k, k, i, row[i], s)
    if final is not None and len(psteps) == len(steps) - npool:
        for i in range(len(ref.pool)):
            r = final[i] if i < len(final) else ""
            for j in range(min(i, len(r))):
                s = same_object(ref.pool[i], ref.pool[j])
                if s is None: continue
                if r[j] != ("1" if s else "0"):
                    return "aliasing: at the end (eq? p%d p%d) is %s, reference store: %s" % (i, j, r[j], s)
    return None


def oracle41(npool, steps, impl_line):
    ref = Ref()
    st, val = None, None
    for op, operands in steps:
        try:
            st, val = ref.step(op, operands)
        except Reject:
            return None
        ref.pool.append(val if st == "OK" else False)
    m = re.match(r"S \| (OK|ERR) (.*)$", impl_line, re.S)
    if not m:
        return "panic: list? on circular data did not answer (%s)" % impl_line[:40]
    if st == "OK" and val is not UNSPEC:
        if m.group(1) != "OK" or m.group(2) != show(val):
            return "wrong-result: last step answered %s %s, R7RS: %s" % (m.group(1), m.group(2), show(val))
    return None


def nontrivial(case, impl_line):
    if case[0] == 41:
        return impl_line.startswith("S | OK")
    return impl_line.count(" | OK") >= 1 and len(case) > 12


def known_class(case, impl_line, model_line):
    return None


# ================================================================== generator
SCALARS = [("int", 0), ("int", 1), ("int", 2), ("int", 3), ("int", -1), ("int", 7), ("int", 42),
           ("sym", 0), ("sym", 1), ("sym", 2), ("sym", 3), ("bool", True), ("bool", False), ("nil",),
           ("char", 97), ("char", 98), ("char", 0x3bb), ("flo", 0x4000000000000000), ("flo", 0x3ff0000000000000),
           ("flo", 0), ("flo", 0x8000000000000000), ("flo", 0x3fe0000000000000),
           ("str", (97, 98)), ("str", ()), ("int", 2 ** 40),
           # small integers held as bignums (what arithmetic that passed through a bignum leaves behind): eqv?, equal?,
           # memv, assv ... must treat them like the same fixnum
           ("big", 2), ("big", 3), ("big", 0), ("big", -1), ("big", 2 ** 40)]
KEYS = [("int", 0), ("int", 1), ("int", 2), ("int", 3), ("int", -1), ("big", 1), ("big", 2), ("big", 3), ("sym", 0), ("sym", 1), ("sym", 2), ("sym", 3),
        ("bool", True), ("bool", False), ("nil",), ("char", 97), ("char", 98)]


def rand_datum(rng, depth=0):
    r = rng.random()
    if depth >= 2 or r < 0.55:
        return rng.choice(SCALARS)
    if r < 0.8:
        n = rng.randint(0, 4)
        tail = ("nil",) if rng.random() < 0.8 else rng.choice(SCALARS)
        xs = [rand_datum(rng, depth + 1) for _ in range(n)]
        return ("list", xs, tail) if xs else tail
    if r < 0.9:
        n = rng.randint(1, 3)
        return ("list", [("list", [rng.choice(KEYS)], rng.choice(SCALARS)) for _ in range(n)], ("nil",))
    return ("vec", [rand_datum(rng, depth + 1) for _ in range(rng.randint(0, 4))])


def rand_list_datum(rng):
    n = rng.randint(0, 5)
    xs = [rand_datum(rng, 1) for _ in range(n)]
    tail = ("nil",) if rng.random() < 0.85 else rng.choice(SCALARS)
    return ("list", xs, tail) if xs else ("nil",)


def rand_alist_datum(rng):
    n = rng.randint(0, 4)
    xs = [("list", [rng.choice(KEYS if rng.random() < 0.8 else SCALARS)], rand_datum(rng, 2)) for _ in range(n)]
    if rng.random() < 0.1 and xs:
        xs[rng.randrange(len(xs))] = rng.choice(SCALARS)
    tail = ("nil",) if rng.random() < 0.9 else rng.choice(SCALARS)
    return ("list", xs, tail) if xs else ("nil",)


class Gen:
    def __init__(self, rng):
        self.rng = rng
        self.ref = Ref()
        self.steps = []
        self.stats = {}

    # ---- operand choice
    def idx_of(self, pred):
        return [i for i, v in enumerate(self.ref.pool) if v is not UNSPEC and pred(v)]

    def pool_ref(self, pred=lambda v: True):
        c = self.idx_of(pred)
        return ("p", self.rng.choice(c)) if c else None

    def any_operand(self):
        rng = self.rng
        if rng.random() < 0.7:
            o = self.pool_ref()
            if o: return o
        return rand_datum(rng, 1)

    def listish(self):
        rng = self.rng
        r = rng.random()
        if r < 0.75:
            o = self.pool_ref(lambda v: isinstance(v, Pair) or v is NIL)
            if o: return o
        if r < 0.9:
            return rand_list_datum(rng)
        return self.any_operand()

    def pairish(self):
        if self.rng.random() < 0.9:
            o = self.pool_ref(lambda v: isinstance(v, Pair))
            if o: return o
        return self.listish()

    def vecish(self):
        r = self.rng.random()
        if r < 0.8:
            o = self.pool_ref(lambda v: isinstance(v, Vec))
            if o: return o
        if r < 0.92:
            return ("vec", [rand_datum(self.rng, 1) for _ in range(self.rng.randint(0, 4))])
        return self.any_operand()

    def length_of(self, o):
        try:
            v = self.ref.operand(o)
        except Exception:  # noqa
            return 0
        if isinstance(v, Vec): return len(v.items)
        n = 0
        while isinstance(v, Pair):
            n += 1; v = v.cdr
        return n

    def index(self, n):
        rng = self.rng
        r = rng.random()
        if r < 0.55: k = rng.randint(0, max(0, n - 1)) if n > 0 else 0
        elif r < 0.88: k = rng.choice([-1, 0, 1, n - 1, n, n + 1])
        elif r < 0.93: k = rng.choice([n + 2, 10 ** 6, 2 ** 62, I64_MAX])
        elif r < 0.96: return ("flo", 0x3ff0000000000000)
        else: return rng.choice(SCALARS)
        return ("int", k)

    def key(self):
        return self.rng.choice(KEYS)

    # ---- one step
    def gen_call(self):
        rng = self.rng
        name = rng.choice(GEN_OPS)
        A = None
        if name in ("car", "cdr", "cadr", "cddr", "caar", "cdar"): A = [self.pairish()]
        elif name == "cons": A = [self.any_operand(), self.any_operand() if rng.random() < 0.4 else self.listish()]
        elif name in ("set-car!", "set-cdr!"): A = [self.pairish(), self.any_operand()]
        elif name == "list": A = [self.any_operand() for _ in range(rng.randint(0, 4))]
        elif name in ("length", "reverse", "list?", "list->vector"): A = [self.listish()]
        elif name == "append": A = [self.listish() for _ in range(rng.randint(0, 3))] + ([self.any_operand()] if rng.random() < 0.3 else [])
        elif name in ("list-tail", "list-ref"):
            l = self.listish(); A = [l, self.index(self.length_of(l))]
        elif name in ("memq", "memv"): A = [self.key(), self.listish()]
        elif name == "member": A = [self.any_operand(), self.listish()]
        elif name in ("assq", "assv"):
            A = [self.key(), self.pool_ref(lambda v: isinstance(v, Pair) and isinstance(v.car, Pair)) or rand_alist_datum(rng)]
        elif name == "assoc":
            A = [self.any_operand(), self.pool_ref(lambda v: isinstance(v, Pair) and isinstance(v.car, Pair)) or rand_alist_datum(rng)]
        elif name == "map":
            f = rng.choice(["car", "cdr", "pair?", "null?", "vector?", "list", "vector", "cons", "length", "not",
                            "vector-length", "list?", "equal?", "vector-ref", "cadr", "list-tail"])
            n = {"cons": 2, "equal?": 2, "vector-ref": 2, "list-tail": 2}.get(f, 1)
            if f in ("list", "vector"): n = rng.randint(1, 3)
            A = [("fun", OPID[f])] + [self.listish() for _ in range(n)]
        elif name == "for-each":
            f = rng.choice(["set-car!", "vector-fill!", "vector-set!", "car", "list", "set-car!"])
            n = {"set-car!": 2, "vector-fill!": 2, "vector-set!": 3, "car": 1, "list": 1}[f]
            A = [("fun", OPID[f])] + [self.listish() for _ in range(n)]
        elif name == "vector": A = [self.any_operand() for _ in range(rng.randint(0, 4))]
        elif name == "make-vector":
            k = rng.choice([("int", 0), ("int", 1), ("int", 2), ("int", 3), ("int", -1), ("flo", 0x4000000000000000), ("sym", 0)])
            A = [k, self.any_operand()] if rng.random() < 0.9 or k != ("int", 0) else [k]
        elif name in ("vector-length", "vector->list", "vector?"): A = [self.vecish()]
        elif name == "vector-ref":
            v = self.vecish(); A = [v, self.index(self.length_of(v))]
        elif name == "vector-set!":
            v = self.vecish(); A = [v, self.index(self.length_of(v)), self.any_operand()]
        elif name == "vector-fill!": A = [self.vecish(), self.any_operand()]
        elif name == "vector-copy":
            v = self.vecish(); A = [v] + ([self.index(self.length_of(v))] if rng.random() < 0.8 else [])
        elif name == "vector-copy!":
            to, frm = self.vecish(), self.vecish()
            nt, nf = self.length_of(to), self.length_of(frm)
            A = [to, self.index(nt), frm]
            if rng.random() < 0.75:
                A.append(self.index(nf))
                if rng.random() < 0.6: A.append(self.index(nf))
        elif name == "equal?":
            a = self.any_operand()
            if rng.random() < 0.5:
                b = self.any_operand()
            else:
                # a structurally equal copy of the first operand
                try:
                    v = self.ref.operand(a); size_acyclic(v, 60)
                    b = to_datum(v) or self.any_operand()
                except Exception:  # noqa
                    b = self.any_operand()
            A = [a, b]
        else: A = [self.any_operand()]           # predicates
        if rng.random() < 0.04 and A:             # arity violation
            # (map f) / (for-each f) without a list are excluded: marwood loops forever building an
            # infinite result when f accepts no arguments (not a valid call in R7RS; a C06 matter)
            if rng.random() < 0.5 and not (name in ("map", "for-each") and len(A) <= 2): A = A[:-1]
            else: A = A + [self.any_operand()]
        return OPID[name], A

    def add(self, op, operands, mutating_check=True):
        """run on the reference; keep the step unless it creates circular / oversized data"""
        import copy
        name = OPS[op] if op else "quote"
        snapshot = copy.deepcopy(self.ref.pool) if name in MUTATORS else None
        try:
            st, val = self.ref.step(op, operands)
            if st == "EITHER" and self.rng.random() < 0.5:
                raise Reject("either")
            v = val if st in ("OK", "EITHER") else False
            if v is not UNSPEC:
                size_acyclic(v, 120)
            if snapshot is not None:
                for x in self.ref.pool:
                    if x is not UNSPEC: size_acyclic(x, 160)
        except (Reject, RecursionError):
            if snapshot is not None:
                self.ref.pool = snapshot
            return False
        self.ref.pool.append(v if st != "EITHER" else v)
        if st == "EITHER":
            # which branch the implementation takes is open: do not build on the result
            self.ref.pool[-1] = UNSPEC
        self.steps.append((op, operands))
        self.stats[name] = self.stats.get(name, 0) + 1
        self.stats["status:" + st] = self.stats.get("status:" + st, 0) + 1
        return True


def to_datum(v):
    if v is True or v is False: return ("bool", v)
    if is_int(v): return ("int", v) if abs(v) <= I64_MAX else None
    if v is NIL: return ("nil",)
    if isinstance(v, Sym): return ("sym", ord(v.name) - 97)
    if isinstance(v, Char): return ("char", v.c)
    if isinstance(v, Flo): return ("flo", v.bits)
    if isinstance(v, Str): return ("str", tuple(v.text))
    if isinstance(v, Pair):
        xs = []
        while isinstance(v, Pair):
            d = to_datum(v.car)
            if d is None: return None
            xs.append(d); v = v.cdr
        t = to_datum(v)
        return None if t is None else ("list", xs, t)
    if isinstance(v, Vec):
        xs = [to_datum(x) for x in v.items]
        return None if any(x is None for x in xs) else ("vec", xs)
    return None


GEN_OPS = (["car", "cdr", "cons", "set-car!", "set-cdr!", "vector-ref", "vector-set!"] * 3 +
           ["list", "length", "append", "reverse", "list-tail", "list-ref", "memq", "memv", "member", "assq", "assv",
            "assoc", "map", "for-each", "list?", "vector", "make-vector", "vector-length", "vector-fill!",
            "vector->list", "list->vector", "vector-copy", "vector-copy!", "equal?"] * 2 +
           ["append", "vector-copy!", "vector-fill!", "list->vector", "cadr", "cddr", "caar", "cdar",
            "pair?", "null?", "vector?", "not", "symbol?"])


def gen_sequence(rng):
    g = Gen(rng)
    npool_target = rng.randint(2, 6)
    tries = 0
    while len(g.steps) < npool_target and tries < 40:
        tries += 1
        r = rng.random()
        if r < 0.25: op, A = 0, [rand_list_datum(rng)]
        elif r < 0.35: op, A = 0, [rand_alist_datum(rng)]
        elif r < 0.45: op, A = 0, [("vec", [rand_datum(rng, 1) for _ in range(rng.choice([0, 0, 1, 2, 3, 4]))])]
        elif r < 0.5: op, A = 0, [rng.choice(SCALARS)]
        elif r < 0.62: op, A = OPID["cons"], [g.any_operand(), g.listish()]
        elif r < 0.72: op, A = OPID["list"], [g.any_operand() for _ in range(rng.randint(0, 3))]
        elif r < 0.84: op, A = OPID["vector"], [g.any_operand() for _ in range(rng.randint(0, 4))]
        elif r < 0.9: op, A = OPID["make-vector"], [("int", rng.randint(0, 3)), g.any_operand()]
        elif r < 0.95: op, A = OPID["append"], [g.listish(), g.listish()]
        else:
            o = g.pool_ref()
            if not o: continue
            op, A = 0, [o]
        g.add(op, A)
    npool = len(g.steps)
    nops = rng.randint(1, 12)
    tries = 0
    while len(g.steps) < npool + nops and tries < 60:
        tries += 1
        op, A = g.gen_call()
        g.add(op, A)
    return encode(40, npool, g.steps), g.stats, len(g.steps) - npool


def gen_circular(rng):
    """interface 41: list? on (mostly) circular lists"""
    n = rng.randint(1, 6)
    steps = [(OPID["list"], [rng.choice(SCALARS) for _ in range(n)])]      # p0
    j = rng.randint(0, n - 1)
    steps.append((OPID["list-tail"], [("p", 0), ("int", n - 1)]))          # p1 = last pair
    steps.append((OPID["list-tail"], [("p", 0), ("int", j)]))              # p2 = the pair the cycle re-enters
    r = rng.random()
    if r < 0.75:
        steps.append((OPID["set-cdr!"], [("p", 1), ("p", 2)]))             # circular
    elif r < 0.9:
        steps.append((OPID["set-cdr!"], [("p", 1), rng.choice(SCALARS)]))  # improper or proper
    else:
        steps.append((OPID["set-car!"], [("p", 1), ("p", 0)]))             # circular through car only: still a list
    tgt = rng.choice([("p", 0), ("p", 2), ("p", 1)])
    if rng.random() < 0.2:
        steps.append((OPID["cons"], [("int", 1), tgt])); tgt = ("p", 4)
    steps.append((OPID["list?"], [tgt]))
    return encode(41, 0, steps)


def corpus():
    I = lambda n: ("int", n)
    P = lambda i: ("p", i)
    L = lambda xs, t=("nil",): ("list", xs, t)
    V = lambda xs: ("vec", xs)
    O = OPID
    seqs = [
        # F2: empty vectors
        (1, [(0, [V([])]), (O["vector-set!"], [P(0), I(0), I(1)]), (O["vector-copy"], [P(0)]), (O["vector-copy"], [P(0), I(0)]),
             (O["vector-copy!"], [P(0), I(0), P(0)]), (O["vector-copy!"], [P(0), I(0), P(0), I(0), I(0)])]),
        # F7: vector-fill! stores the object itself
        (2, [(0, [L([I(1), I(2)])]), (O["make-vector"], [I(2), I(0)]), (O["vector-fill!"], [P(1), P(0)]),
             (O["set-car!"], [P(0), I(9)]), (O["vector-ref"], [P(1), I(1)]), (O["set-cdr!"], [P(4), ("nil",)])]),
        # F8 and overlap
        (2, [(0, [V([I(1), I(2), I(3), I(4), I(5)])]), (0, [V([I(6), I(7), I(8), I(9), I(10)])]),
             (O["vector-copy!"], [P(1), I(0), P(0), I(2), I(3)]), (O["vector-copy!"], [P(1), I(1), P(0), I(2), I(4)]),
             (O["vector-copy!"], [P(0), I(1), P(0), I(0), I(2)]), (O["vector-copy!"], [P(0), I(0), P(0), I(1), I(3)]),
             (O["vector-copy!"], [P(1), I(5), P(0), I(5)]), (O["vector-copy!"], [P(1), I(4), P(0), I(3)])]),
        # F16, start = length
        (0, [(O["list->vector"], [L([I(1), I(2)], I(3))]), (O["vector-copy"], [V([I(1), I(2), I(3)]), I(3)]),
             (O["vector-copy"], [V([I(1), I(2), I(3)]), I(4)])]),
        # F17 and the final cdr of improper lists
        (0, [(O["equal?"], [I(2), ("flo", 0x4000000000000000)]), (O["memv"], [I(2), L([("flo", 0x4000000000000000), I(2)])]),
             (O["equal?"], [("flo", 0), ("flo", 0x8000000000000000)]),
             (O["equal?"], [L([I(1)], ("sym", 0)), L([I(1)], ("sym", 0))]),
             (O["equal?"], [L([I(1)], V([I(1)])), L([I(1)], V([I(1)]))]),
             (O["member"], [L([I(1)], ("sym", 0)), L([L([I(1)], ("sym", 1)), L([I(1)], ("sym", 0))])]),
             (O["assoc"], [V([I(1)]), L([L([V([I(2)])], I(1)), L([V([I(1)])], I(2))])])]),
        # sharing tails, aliases, list ops
        (3, [(0, [L([I(1), I(2), I(3)])]), (O["cons"], [I(0), P(0)]), (0, [P(0)]),
             (O["set-car!"], [P(2), ("sym", 0)]), (O["list-tail"], [P(1), I(2)]), (O["set-cdr!"], [P(4), L([I(7)])]),
             (O["append"], [P(0), P(1)]), (O["reverse"], [P(0)]), (O["set-car!"], [P(7), I(5)]),
             (O["map"], [("fun", O["cons"]), P(0), P(1)]), (O["for-each"], [("fun", O["set-car!"]), P(9), P(0)]),
             (O["length"], [L([I(1)], I(2))]), (O["list-ref"], [P(0), I(3)]), (O["list-tail"], [P(0), I(4)])]),
    ]
    out = [encode(40, n, s) for n, s in seqs]
    # list? on a circular list (F11)
    out.append(encode(41, 0, [(O["list"], [I(1), I(2), I(3)]), (O["cddr"], [P(0)]), (O["set-cdr!"], [P(1), P(0)]),
                              (O["list?"], [P(0)])]))
    out.append(encode(41, 0, [(O["list"], [I(1)]), (O["set-cdr!"], [P(0), P(0)]), (O["list?"], [P(0)])]))
    return out


def _gen_chunk(args):
    """one worker of the generator: its own PRNG, seeded from the run's PRNG"""
    import random
    seed, n = args
    rng = random.Random(seed)
    cases, stats, lens = [], {}, {}
    for _ in range(n):
        c, st, nops = gen_sequence(rng)
        cases.append(c)
        lens[nops] = lens.get(nops, 0) + 1
        for k, v in st.items():
            stats[k] = stats.get(k, 0) + v
    return cases, stats, lens


def generate(rng, tier):
    n = 20000 if tier == "quick" else 500000
    ncirc = 300 if tier == "quick" else 3000
    # the sequences are generated by 16 workers, each with a PRNG seeded from the run's PRNG (deterministic
    # for a given VERIF_SEED whatever the scheduling: the chunks are concatenated in order)
    nchunks = 16
    jobs = [(rng.getrandbits(64), n // nchunks + (1 if k < n % nchunks else 0)) for k in range(nchunks)]
    try:
        import multiprocessing
        with multiprocessing.get_context("fork").Pool(min(nchunks, os.cpu_count() or 4)) as pool:
            parts = pool.map(_gen_chunk, jobs)
    except Exception:  # noqa  (no fork available: same result, sequentially)
        parts = [_gen_chunk(j) for j in jobs]
    cases, stats, lens = [], {}, {}
    for cs, st, ln in parts:
        cases += cs
        for k, v in st.items():
            stats[k] = stats.get(k, 0) + v
        for k, v in ln.items():
            lens[k] = lens.get(k, 0) + v
    for _ in range(ncirc):
        cases.append(gen_circular(rng))
    return cases, {"sequences": n, "circular_list_cases": ncirc, "ops_per_sequence": {str(k): v for k, v in sorted(lens.items())},
                   "operations": {k: v for k, v in sorted(stats.items())}}


# ======================================================== shrinking / search
def reductions(case):
    try:
        iface, npool, steps = decode(case)
    except Exception:  # noqa
        return
    n = len(steps)
    for j in reversed(range(n)):
        used = any(o[0] == "p" and o[1] == j for _, ops in steps[j + 1:] for o in ops)
        if used:
            continue
        new = []
        for k, (op, ops) in enumerate(steps):
            if k == j: continue
            new.append((op, [("p", o[1] - 1) if o[0] == "p" and o[1] > j else o for o in ops]))
        yield encode(iface, npool - 1 if j < npool else npool, new)
    if npool > 0 and iface == 40:
        yield encode(iface, npool - 1, steps)


def neighbours(case, rng):
    try:
        iface, npool, steps = decode(case)
    except Exception:  # noqa
        return []
    out = []
    for k, (op, ops) in enumerate(steps):
        for a, o in enumerate(ops):
            if o[0] == "int":
                for d in (-2, -1, 1, 2):
                    ns = list(steps)
                    no = list(ops); no[a] = ("int", o[1] + d)
                    ns[k] = (op, no)
                    out.append(encode(iface, npool, ns))
    return out[:400]
