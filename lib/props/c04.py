"""C04 — calls in tail position run in constant stack space (and return what the non-tail
equivalent returns)."""
import itertools
import sys
import vmgen
from vmgen import enc, dec

PID = "C04"
# the machine state contains numbers (Model/Num.v, Flocq binary64): statements about the vm record
# may list the four standard axioms behind Coq's Reals
ALLOWED_AXIOMS = ["Classical_Prop.classic", "ClassicalDedekindReals.sig_forall_dec",
                  "ClassicalDedekindReals.sig_not_dec", "FunctionalExtensionality.functional_extensionality_dep"]
PROFILES = ["debug"]
SHARD_TIMEOUT = {"quick": 100, "thorough": 900}   # seconds per implementation shard; a hang becomes TIMEOUT lines, not a stalled check
CASES_PER_SHARD = 20      # sessions are expensive on the model: use all cores
CORRESPONDENCE = ("compile.rs tail flag / run.rs CALL, TCALL, VARARG, ENTER, RET / procedure.rs apply, call/cc, eval "
                  "re-dispatch / prelude.scm derived forms, observed as the maximum stack pointer at instruction "
                  "boundaries per datum (wire 75) vs Model/Compile.v, Model/Vm.v, Model/WireVm.v step_hw")
RULE = ("generated loops of 1, 2 or 3 mutually recursive procedures counting a global counter down from n; each "
        "procedure has 0..4 fixed parameters and optionally a rest parameter, its tail call passes the callee's "
        "arity (plus 0..2 extra arguments into a rest parameter), directly or through apply (two spreads), call/cc "
        "or eval, and sits inside a composition of 0..3 tail contexts (if branches, cond/case clauses incl. else and "
        "=>, last operand of and/or, when/unless, let/let*/letrec/named-let bodies, begin, last expression of a "
        "lambda body).  Enumerated: every context composition of depth <= 2 (thorough: x every call kind) and a "
        "sample of depth 3, the full grid caller arity x callee arity x rest on either side (x call kinds), classic "
        "hand-written loops.  Every shape runs in ONE session: tail version at n = 10, 100, 1000 and its non-tail "
        "twin (call wrapped in (car (list ..))) at n = 10, 100 on implementation and model; implementation-only "
        "sessions (thorough) run the tail version at n = 100000 and the twin at n = 1000.  oracle per session: "
        "hw(tail,10) = hw(tail,100) = hw(tail,1000), value(tail,n) = value(non-tail,n), hw(non-tail) grows with n "
        "(the measurement works); cross-case: hw(tail,100000) = hw(tail,10) of the same shape.  non-trivial = a "
        "session whose tail loop completed at n = 1000 (or 100000); distinct by case hash")
ASSUMPTIONS = ["stack space is measured as the stack pointer at instruction boundaries (single-instruction slices); "
               "pushes and pops inside one instruction are not seen (an instruction's own temporaries are bounded by "
               "its operand count)",
               "n = 100000 runs only on the implementation (model budget: 400000 instructions per evaluation)"]
KERNEL_SAMPLE = {"quick": 12, "thorough": 60}
KERNEL_MAXLEN = 1800
TRUSTED_BASE = ["lib/props/vmgen.py result-line parsers; lib/props/c04.py loop-shape generator",
                "lib/runner.py MODEL_SKIP: sessions tagged c04x are implementation-only"]
# the measured loops run up to 1000 iterations through nested derived forms: beyond the model's instruction budget
# (EVAL_FUEL) the model has no answer; the implementation's high-water marks are still judged by the oracle
MODEL_NOFUEL_IS_NO_ANSWER = True

MANIFEST = dict(
    text="Coq theorems (coq/Props/C04.v) over the hand-written models of run.rs and compile.rs: TCALL with m new arguments rebuilds the frame on the SAME base with the caller's return information and sp = base + m + 3, through BOTH branches (equal and different argument count; the overlapping copy loops are proved not to clobber what they still have to read); ENTER pushes exactly one slot for plain lambdas and closures; applications in tail position end in TCALL and the tail flag is inherited by both branches of if (Props/C01.v); every R7RS tail sub-form of if/cond/case/and/or/when/unless/let/let*/letrec/named let/begin lands in tail position of what the GENERATED prelude's macros expand to and the model compiler emits (reflection over all depth-one contexts and an enumerated sub-product of depths two and three). a tail call to a VARIADIC procedure (TCALL, then VARARG collecting the surplus arguments into the rest list, then ENTER) leaves the frame on the same base with sp = base + L + 4 for L formals including the rest parameter, whatever the number of actual arguments and the history (C04_vararg_frame, C04_tcall_vararg_enter), so a variadic self-tail-call loop runs in constant stack; the same invariant is stated for fixed-arity callees (C04_tcall_enter_invariant). The whole-loop statement is proved for the closure fragment of C01 (C04_exec_bounded: the fragment correctness theorem re-proved with the maximum stack pointer carried through every case, where a call in tail position contributes the maximum of the callee's needs and not a frame per call): C04_loop_space - for EVERY n, every state of a self-tail-recursive loop driven by a chain of n closures has sp <= entry + 9; C04_loop_space_mutual - the same for two mutually tail-calling procedures; C04_nontail_grows - the non-tail twin reaches entry + 9 + 5n; the session versions start from the machine after load_builtins (computed: 9, 9, 9 and 14, 34, 259 for n = 1, 5, 50). NOT proved: loops driven by lists or numbers (the builtin hypothesis of the fragment theorem is refuted for cdr: pair fields may hold pointer cells), derived forms inside the induction, the contents of the rest list, the re-dispatch of apply/call-cc/eval onto the same TCALL (covered by the correspondence only). Tied to /repo by generated loop shapes (context compositions x arities 0..4 x rest parameters x self/2/3-procedure recursion x direct/apply/call-cc/eval) measured at several n on implementation, extracted model and vm_compute, n=100000 on the implementation only, with the oracle: high-water mark independent of n, value equal to the non-tail twin's, the twin's mark grows.",
    design="DESIGN.md section 5 C04",
    note="Trusted: Coq kernel; hand-written model tied by sampling correspondence ; harness single-step measurement of sp (read-only accessor, cfg marwood_verif); Python shape generator. Axioms: at most the four standard-library axioms of Coq's Reals inherited through Flocq's binary64 in the number type of the machine state.",
    technique="Rocq/Coq proof (frame invariant, induction on iterations, reflection over context compositions) + model/implementation correspondence check + cross-case oracle")

# ------------------------------------------------------------ tail contexts
# name -> template with one %s in a tail position (R7RS 3.5)
CONTEXTS = [
    ("if-then", "(if (< 0 1) %s 'no)"),
    ("if-else", "(if (< 1 0) 'no %s)"),
    ("cond-clause", "(cond ((< 1 0) 'no) ((< 0 1) 'x %s) (else 'no))"),
    ("cond-else", "(cond ((< 1 0) 'no) (else 'x %s))"),
    ("cond-arrow", "(cond ((< 1 0) 'no) ((+ 0 1) => (lambda (v) %s)) (else 'no))"),
    ("cond-arrow-last", "(cond ((+ 0 1) => (lambda (v) %s)))"),
    ("case-clause", "(case (+ 0 1) ((0 2) 'no) ((1 3) 'x %s) (else 'no))"),
    ("case-else", "(case (+ 0 5) ((0 2) 'no) (else 'x %s))"),
    ("case-arrow", "(case (+ 0 1) ((1) => (lambda (v) %s)) (else 'no))"),
    ("case-else-arrow", "(case (+ 0 5) ((1) 'no) (else => (lambda (v) %s)))"),
    ("and-last", "(and (< 0 1) 1 %s)"),
    ("or-last", "(or (< 1 0) #f %s)"),
    ("when", "(when (< 0 1) 'x %s)"),
    ("unless", "(unless (< 1 0) 'x %s)"),
    ("let", "(let ((a 1) (b 2)) 'x %s)"),
    ("let-empty", "(let () %s)"),
    ("let*", "(let* ((a 1) (b a)) %s)"),
    ("letrec", "(letrec ((f (lambda () (g))) (g (lambda () 1))) %s)"),
    ("named-let", "(let lp ((i 0)) %s)"),
    ("begin", "(begin 'x %s)"),
    ("lambda-body", "((lambda (z) 'x %s) 1)"),
    ("lambda-rest-body", "((lambda z %s) 1 2)"),
]
CTX = dict(CONTEXTS)
CALL_KINDS = ["direct", "apply", "apply-spread", "callcc", "eval"]


def call_text(kind, f, args):
    if kind == "apply-spread" and not args:
        kind = "apply"
    if kind == "direct":
        return "(%s)" % " ".join([f] + args)
    if kind == "apply":
        return "(apply %s (list%s))" % (f, "".join(" " + a for a in args))
    if kind == "apply-spread":
        return "(apply %s %s (list%s))" % (f, args[0], "".join(" " + a for a in args[1:]))
    if kind == "callcc":
        return "(call/cc (lambda (k) (%s)))" % " ".join([f] + args)
    if kind == "eval":
        return "(eval (list '%s%s))" % (f, "".join(" " + a for a in args))
    raise ValueError(kind)


def params_text(a, rest):
    xs = ["x%d" % t for t in range(1, a + 1)]
    if rest:
        return (" " + " ".join(xs) + " . r") if xs else " . r"
    return "".join(" " + x for x in xs)


def shape_forms(shape, prefix, nontail):
    """shape = dict(procs=[dict(a=, rest=, ctx=[names], kind=, extra=)], ...); procedure i calls i+1 mod m"""
    procs = shape["procs"]
    m = len(procs)
    out = []
    for i, p in enumerate(procs):
        q = procs[(i + 1) % m]
        # arguments for the callee: first = own x1 + 1 (or 1), then a rotation of the caller's parameters
        args = []
        for t in range(1, q["a"] + 1):
            if t == 1:
                args.append("(+ x1 1)" if p["a"] >= 1 else "1")
            elif t - 1 <= p["a"]:
                args.append("x%d" % (t - 1))
            else:
                args.append(str(t))
        if q["rest"]:
            args += [str(7 + e) for e in range(q["extra"])]
        call = call_text(p["kind"], "%s%d" % (prefix, (i + 1) % m), args)
        if nontail:
            call = "(car (list %s))" % call
        body = call
        for c in reversed(p["ctx"]):
            body = CTX[c] % body
        res = "(list 'end%d%s%s)" % (i, "".join(" x%d" % t for t in range(1, p["a"] + 1)), " r" if p["rest"] else "")
        out.append("(define (%s%d%s) (if (< (dec!) 0) %s %s))" % (prefix, i, params_text(p["a"], p["rest"]), res, body))
    return out


def first_call(shape, prefix):
    p = shape["procs"][0]
    args = ["0"] * p["a"] + (["9"] * p["extra"] if p["rest"] else [])
    return "(%s)" % " ".join(["%s0" % prefix] + args)


COMMON = "(define cn 0) (define (dec!) (set! cn (- cn 1)) cn)"


RUNS = {   # session kinds: tag name -> measured calls ("t"/"n" = tail / non-tail twin, iteration count)
    "c04": [("t", 10), ("t", 100), ("n", 10), ("n", 40)],        # model + implementation, every shape
    "c04m": [("t", 10), ("t", 1000)],                            # model + implementation, a subset (model cost)
    "c04x": [("t", 10), ("t", 1000), ("n", 1000)],               # implementation only, every shape
    "c04b": [("t", 10), ("t", 100000)],                          # implementation only, a subset
}


def tag_text(kind, sid):
    return "'(%s %d %s)" % (kind, sid, " ".join("%s%d" % r for r in RUNS[kind]))


def shape_case(shape, sid, kind="c04"):
    t, n = first_call(shape, "T"), first_call(shape, "N")
    run = " ".join("(set! cn %d) %s" % (k, t if w == "t" else n) for w, k in RUNS[kind])
    forms = [tag_text(kind, sid), COMMON] + shape_forms(shape, "T", False) + shape_forms(shape, "N", True) + [run]
    return enc([75], forms)


# hand-written classics: (definitions, tail call with %d, non-tail twin with %d)
CLASSICS = [
    ("(define (T0 i acc) (if (= i 0) acc (T0 (- i 1) (+ acc 1))))", "(T0 %d 0)",
     "(define (N0 i acc) (if (= i 0) acc (car (list (N0 (- i 1) (+ acc 1))))))", "(N0 %d 0)"),
    ("(define (T0 n) (let lp ((i n) (acc 0)) (if (= i 0) acc (lp (- i 1) (+ acc i)))))", "(T0 %d)",
     "(define (N0 n) (let lp ((i n) (acc 0)) (if (= i 0) acc (+ 0 (lp (- i 1) (+ acc i))))))", "(N0 %d)"),
    ("(define (T0 n) (define (lp i) (cond ((= i 0) 'done) (else (lp (- i 1))))) (lp n))", "(T0 %d)",
     "(define (N0 n) (define (lp i) (cond ((= i 0) 'done) (else (id (lp (- i 1)))))) (lp n)) (define (id x) x)", "(N0 %d)"),
    ("(define (T0 n) (if (= n 0) #t (T1 (- n 1)))) (define (T1 n) (if (= n 0) #f (T0 (- n 1))))", "(T0 %d)",
     "(define (N0 n) (if (= n 0) #t (not (not (N1 (- n 1)))))) (define (N1 n) (if (= n 0) #f (not (not (N0 (- n 1))))))", "(N0 %d)"),
    ("(define (T0 n . r) (if (= n 0) r (apply T0 (- n 1) r)))", "(T0 %d 1 2)",
     "(define (N0 n . r) (if (= n 0) r (cdr (cons 0 (apply N0 (- n 1) r)))))", "(N0 %d 1 2)"),
    ("(define (T0 n) (and (> n -1) (or (= n 0) (T0 (- n 1)))))", "(T0 %d)",
     "(define (N0 n) (and (> n -1) (or (= n 0) (not (not (N0 (- n 1)))))))", "(N0 %d)"),
    ("(define (T0 n k) (if (= n 0) (k 'out) (call/cc (lambda (c) (T0 (- n 1) c)))))", "(T0 %d (lambda (x) x))",
     "(define (N0 n k) (if (= n 0) (k 'out) (car (list (call/cc (lambda (c) (N0 (- n 1) c)))))))", "(N0 %d (lambda (x) x))"),
    ("(define (T0 n) (for-each (lambda (x) x) '(1 2)) (if (= n 0) 'done (T0 (- n 1))))", "(T0 %d)",
     "(define (N0 n) (for-each (lambda (x) x) '(1 2)) (if (= n 0) 'done (car (list (N0 (- n 1))))))", "(N0 %d)"),
]


def classic_case(k, sid, kind="c04"):
    dt, ct, dn, cn_ = CLASSICS[k]
    run = " ".join("1 %s" % ((ct if w == "t" else cn_) % n) for w, n in RUNS[kind])
    return enc([75], [tag_text(kind, sid), COMMON, dt, dn, run])


# ---------------------------------------------------------------- generation
def rand_proc(rng, depth=None, ctx=None, kind=None):
    d = rng.choice([0, 1, 1, 2, 2, 3]) if depth is None else depth
    return {"a": rng.randint(0, 4), "rest": rng.random() < 0.35, "extra": rng.randint(0, 2),
            "ctx": [rng.choice(CONTEXTS)[0] for _ in range(d)] if ctx is None else list(ctx),
            "kind": rng.choice(CALL_KINDS) if kind is None else kind}


def rand_shape(rng, m=None, **kw):
    m = rng.choice([1, 1, 2, 2, 3]) if m is None else m
    procs = [rand_proc(rng, **kw)]
    for _ in range(m - 1):
        procs.append(rand_proc(rng))
    return {"procs": procs}


def corpus():
    out = []
    for k in range(len(CLASSICS)):
        out.append(classic_case(k, 900000 + k, "c04"))
        out.append(classic_case(k, 900000 + k, "c04x"))
        if k != 7:          # for-each in the loop body: n = 1000 exceeds the model's instruction budget
            out.append(classic_case(k, 900000 + k, "c04m"))
    return out


def generate(rng, tier):
    quick = tier == "quick"
    shapes = []
    names = [c[0] for c in CONTEXTS]
    # (a) every single context x every call kind; the empty composition x every call kind
    for kind in CALL_KINDS:
        shapes.append(rand_shape(rng, ctx=[], kind=kind))
        for c in names:
            shapes.append(rand_shape(rng, ctx=[c], kind=kind))
    # (b) every composition of two contexts (thorough: x every call kind)
    for c1, c2 in itertools.product(names, repeat=2):
        for kind in ([rng.choice(CALL_KINDS)] if quick else CALL_KINDS):
            shapes.append(rand_shape(rng, ctx=[c1, c2], kind=kind))
    # (c) compositions of three contexts: a sample
    for _ in range(120 if quick else 4000):
        shapes.append(rand_shape(rng, depth=3))
    # (d) the arity grid: caller x callee arity x rest on either side (thorough: x call kinds), self and mutual
    for a1, a2, r1, r2 in itertools.product(range(5), range(5), (False, True), (False, True)):
        for kind in ([rng.choice(CALL_KINDS[:3])] if quick else CALL_KINDS):
            p1 = {"a": a1, "rest": r1, "extra": rng.randint(0, 2), "ctx": [rng.choice(names)] if rng.random() < 0.5 else [], "kind": kind}
            p2 = {"a": a2, "rest": r2, "extra": rng.randint(0, 2), "ctx": [rng.choice(names)] if rng.random() < 0.5 else [],
                  "kind": rng.choice(CALL_KINDS)}
            procs = [p1, p2]
            if rng.random() < 0.3:
                procs.append(rand_proc(rng, depth=rng.choice([0, 1])))
            if a1 == a2 and r1 == r2 and rng.random() < 0.5:
                procs = [p1]                       # self recursion, equal argument count
            shapes.append({"procs": procs})
    # (e) random fill
    for _ in range(60 if quick else 1500):
        shapes.append(rand_shape(rng))
    cases, dist = [], {"depth": {}, "m": {}, "kinds": {}, "contexts": {}, "rest_procs": 0, "arity_pairs": set()}
    for sid, sh in enumerate(shapes):
        cases.append(shape_case(sh, sid))
        ps = sh["procs"]
        d = str(len(ps[0]["ctx"]))
        dist["depth"][d] = dist["depth"].get(d, 0) + 1
        dist["m"][str(len(ps))] = dist["m"].get(str(len(ps)), 0) + 1
        for i, p in enumerate(ps):
            dist["kinds"][p["kind"]] = dist["kinds"].get(p["kind"], 0) + 1
            dist["rest_procs"] += 1 if p["rest"] else 0
            for c in p["ctx"]:
                dist["contexts"][c] = dist["contexts"].get(c, 0) + 1
            q = ps[(i + 1) % len(ps)]
            dist["arity_pairs"].add((p["a"], p["rest"], q["a"], q["rest"]))
    dist["arity_pairs"] = len(dist["arity_pairs"])
    # implementation-only: n = 1000 for every shape (tail and twin)
    for sid, sh in enumerate(shapes):
        cases.append(shape_case(sh, sid, "c04x"))
    # n = 1000 on the model as well: a subset (each costs the model seconds)
    nm = 64 if quick else 640
    m_ids = rng.sample(range(len(shapes)), min(nm, len(shapes)))
    for sid in m_ids:
        cases.append(shape_case(shapes[sid], sid, "c04m"))
    # implementation-only long runs n = 100000
    # (not through call/cc: every capture copies the stack, so a shape that does grow would cost n^2 there)
    nbig = 16 if quick else 320
    nocc = [i for i, sh in enumerate(shapes) if all(p["kind"] != "callcc" for p in sh["procs"])]
    big_ids = rng.sample(nocc, min(nbig, len(nocc)))
    for sid in big_ids:
        cases.append(shape_case(shapes[sid], sid, "c04b"))
    dist.update({"shapes": len(shapes), "model_n1000_sessions": len(m_ids), "implementation_only_n100000": len(big_ids),
                 "exhaustive": False, "sessions": {k: ["%s%d" % r for r in v] for k, v in RUNS.items()}})
    return cases, dist


# ------------------------------------------------------------------ oracles
def _tag(forms):
    """-> (kind, shape id, [(t|n, count)]) from the leading tag form"""
    if forms and forms[0].startswith("'(c04"):
        w = forms[0][2:-1].split()
        if len(w) >= 3 and w[0] in RUNS and w[1].isdigit() and all(x[0] in "tn" and x[1:].isdigit() for x in w[2:]):
            return w[0], int(w[1]), [(x[0], int(x[1:])) for x in w[2:]]
    return None


def MODEL_SKIP(case):
    """implementation-only sessions (tags c04x, c04b): beyond what the model runs in reasonable time / its budget"""
    if not case or case[0] != 75:
        return False
    _, forms = dec(case)
    t = _tag(forms) if forms else None
    return bool(t and t[0] in ("c04x", "c04b"))


def _runs(case, impl_line):
    """-> (tag, [(t|n, count, value, hw)] of the measured calls in the last form) or None"""
    head, forms = dec(case)
    if forms is None or head[0] != 75:
        return None
    t = _tag(forms)
    res = vmgen.parse75(impl_line)
    if not t or res is None or len(res) != len(forms):
        return None
    last = res[-1]
    if len(last) != 2 * len(t[2]):
        return None
    return t, [(w, n) + tuple(last[2 * i + 1]) for i, (w, n) in enumerate(t[2])]


def oracle(case, impl_line):
    head, forms = dec(case)
    if forms is None or head[0] != 75:
        return None
    if any(w in impl_line for w in ("PANIC", "ABORT", "TIMEOUT")):
        return "panic: an evaluation must return a value or an error (%s)" % impl_line[:80]
    r = _runs(case, impl_line)
    if r is None:
        return "malformed: %r" % impl_line[-120:] if _tag(forms) else None
    tag, runs = r
    for w, n, v, hw in runs:
        if not v.startswith("OK"):
            return "loop-failed: a generated loop did not complete (%s%d): %r" % (w, n, impl_line[-160:])
    tails = [(n, hw) for w, n, v, hw in runs if w == "t"]
    twins = sorted((n, hw) for w, n, v, hw in runs if w == "n")
    if len({hw for n, hw in tails}) > 1:
        return "stack-grows: the tail loop's stack high-water mark depends on n: " + ", ".join("%d at n=%d" % (hw, n) for n, hw in tails)
    for w, n, v, hw in runs:
        if w == "n":
            for w2, n2, v2, hw2 in runs:
                if w2 == "t" and n2 == n and v2 != v:
                    return "value: at n=%d the tail loop returns %r, its non-tail twin %r" % (n, v2[:60], v[:60])
    for (n1, h1), (n2, h2) in zip(twins, twins[1:]):
        if n2 > n1 and not h2 > h1:
            return "measurement: the non-tail twin's high-water mark does not grow with n (%d at n=%d, %d at n=%d)" % (h1, n1, h2, n2)
    if tails and twins and twins[-1][0] >= 40 and not twins[-1][1] > tails[0][1]:
        return "measurement: the non-tail twin (hw %d at n=%d) uses no more stack than the tail loop (hw %d)" % (
            twins[-1][1], twins[-1][0], tails[0][1])
    return None


def _index(cases):
    idx = {}
    for i, c in enumerate(cases):
        if c and c[0] == 75:
            _, forms = dec(c)
            t = _tag(forms) if forms else None
            if t:
                idx.setdefault(t[1], []).append(i)
    return idx


def cross_oracle(cases, impl_lines):
    """all sessions of one shape: the tail loop's high-water mark is the same at every n (10 .. 100000)"""
    out = []
    for sid, ids in sorted(_index(cases).items()):
        if len(ids) < 2:
            continue
        ref = None
        for i in ids:
            r = _runs(cases[i], impl_lines[i])
            if r is None:
                continue
            for w, n, v, hw in r[1]:
                if w != "t" or not v.startswith("OK"):
                    continue
                if ref is None:
                    ref = (n, hw)
                elif hw != ref[1]:
                    out.append((i, "stack-grows: the tail loop's stack high-water mark is %d at n=%d and %d at n=%d" % (ref[1], ref[0], hw, n)))
                    break
    return out


def related(cases, i):
    _, forms = dec(cases[i])
    t = _tag(forms) if forms else None
    if not t:
        return []
    return [cases[j] for j in _index(cases).get(t[1], []) if j != i][:3]


def nontrivial(case, impl_line):
    r = _runs(case, impl_line)
    if r is None:
        return False
    return all(v.startswith("OK") for w, n, v, hw in r[1]) and any(w == "t" and n >= 100 for w, n, v, hw in r[1])


def describe(case):
    head, forms = dec(case)
    if forms is None:
        return {"raw": case[:50]}
    t = _tag(forms)
    return {"iface": "high-water", "kind": t[0] if t else None, "shape": t[1] if t else None,
            "runs": ["%s%d" % (w, n) for w, n in t[2]] if t else None, "forms": forms[1:] if t else forms}


def neighbours(case, rng):
    out = []
    for _ in range(200):
        out.append(shape_case(rand_shape(rng), 800000 + len(out)))
    return out
