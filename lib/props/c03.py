"""C03 — garbage collection is unobservable and never reclaims a live object.

Own flow (the standard runner does not fit: the cases are sessions under collection
schedules, and the model's input — a heap snapshot — is produced by the implementation):

 (b) SCHEDULE interface (60): every generated program runs under schedule none, every k-th
     instruction and pseudo-random boundaries; the canonical result part (values, failures,
     output log) must equal the schedule-none run of the same program (the schedule-free
     answer: Python oracle "same as schedule none"); after EVERY collection the harness's own
     reachability traversal checks allocated-after = reachable-before, no live cell changed,
     free list = free cells without duplicates, symbol table consistent (indep=ok).
 (a) SNAPSHOT interface (61): at selected collections the harness serialises the machine
     state before the collection and the canonical description of the heap after it; the
     model (Model/Gc.v mark + sweep, extracted, and vm_compute for a sub-sample) must
     produce the same allocated set, free-list order and symbol table.
 (62) the packed two-bit map of gc.rs: random get/set/resize sequences, 3-way.
"""
import json, os, random, sys, time
import common as C

PID = "C03"
ALLOWED_AXIOMS = []
PROFILES = ["debug"]
CORRESPONDENCE = ("vm/heap.rs mark/mark_vcell/mark_continuation/mark_lambda/sweep/free + vm/run.rs run_gc root "
                  "enumeration + vm/gc.rs Map vs Model/Gc.v (snapshot interface 61, packed map interface 62)")
RULE = ("programs from allocation-heavy templates (lists, vectors, strings, closures, continuations captured "
        "mid-argument list and re-entered, eval, string->symbol, macros, bignums, promises, error exits; random "
        "sizes) x schedules {none, every k-th instruction (k=1 always + random k in 2..16; thorough: all 1..16), "
        "pseudo-random boundaries}; heap chunk 8192/1024/2048; a case is non-trivial when at least one forced "
        "collection ran, was checked by the harness's independent traversal, and freed or kept a non-empty "
        "live set; distinct by (program, schedule) hash; snapshot cases are non-trivial when the collection "
        "freed at least one cell")
ASSUMPTIONS = [
    "the run loop (instruction set, compiler) is not modelled in this package: schedule-unobservability of whole "
    "programs is established by the correspondence (implementation against itself under schedules), the theorems "
    "cover the collector as a function of the machine state; roots_complete / no_dangling / step_respects_heap_iso are OPEN",
    "forced collections go through the ordinary Vm::run_gc with its utilisation test bypassed by the cfg(marwood_verif) hook",
    "HashMap iteration order of the global bindings is a parameter of the model (theorems hold for every permutation); "
    "the snapshot passes the order the real collection used",
]
TRUSTED_BASE = [
    "hooks marwood/src/vm/verif.rs (add-only, cfg(marwood_verif)); harness serialiser of heap snapshots and its independent reachability traversal (harness/src/area_gc.rs)",
]
MANIFEST = dict(
    text="Coq theorems over a hand-written model of gc.rs / heap.rs mark+sweep / run_gc root enumeration: packed two-bit map = abstract table, mark_exact (Used iff in range and reachable, any HashMap order), mark_fuel_enough, sweep_exact, gc_preserves_live, gc_reclaims_garbage, gc_preserves_symbols, heap invariant preserved by a collection; tied to /repo by forced-collection schedules (every k-th instruction, pseudo-random) with an independent reachability traversal after every collection, and by heap snapshots replayed through the extracted model and vm_compute.",
    design="DESIGN.md section 5 C03, Appendix A.5",
    note="roots_complete is proved for the lexical-variable accesses, ENTER, CALL/TCALL, CLOSURE and operand loads of MOV/PUSH (every address they hand to Heap::get is reachable from the root set mark_roots marks); a collection leaves the machine agreeing with the old one on everything reachable (C03_gc_agree) and leaves no dangling reference (C03_no_dangling_collect); for every instruction (MOV, PUSH, JMP, JNT, RET, HALT, and the allocating CONS, VPUSH, VARARG, ENTER, CLOSURE, CALL/TCALL of lambdas, closures, continuations and of the builtins cons not null? pair? boolean? symbol? vector? port? call/cc, under side conditions true of compiled code) one step of run_one commutes with an injective renaming of live addresses (C03_run_one_iso_all; allocation takes the first free cell, so the renaming is extended by the two fresh addresses) and a run under ANY schedule of collections ends like the schedule-free run in related states (C03_sched_unobservable_all), with the REAL collector: a collection on an arbitrary (not tight) world keeps the relation on the world restricted to what is reachable (C03_collect_shrink_closed, C03_reach_iso), so the schedule theorem holds with the collector hypotheses removed (C03_sched_unobservable_natural), parametric in an invariant of the machine that implies the collector's side conditions (gc_natural, reach_allocated, no_used) - that this triple is kept by every instruction is the remaining OPEN statement (C03_ready3_step_stmt); OPEN: the other builtins, the paths that convert a value with heap-length-dependent model fuel, roots_complete_stmt for the builtins, equality of the final converted value (model fuel depends on the heap length); schedule-unobservability of whole programs is carried by the correspondence. Axioms: theorems whose statement mentions run_one report the four standard Reals axioms via Flocq; the others are closed under the global context.",
    technique="Rocq/Coq proof (induction on fuel / invariants over the mark phase) + forced-collection correspondence check")


# ----------------------------------------------------------------- programs
def _sym(rng):
    return rng.choice(["a", "b", "foo", "bar", "x1", "list->v", "k", "tmp", "sym" + str(rng.randint(0, 30))])


def t_list(rng):
    n = rng.randint(3, 40)
    return ("(define (build n) (if (= n 0) '() (cons (list n (* n n)) (build (- n 1))))) "
            "(define l (build %d)) (length l) (car (reverse l)) (apply + (map car l))" % n)


def t_vector(rng):
    n = rng.randint(2, 30)
    return ("(define v (make-vector %d 0)) "
            "(let loop ((i 0)) (if (< i %d) (begin (vector-set! v i (vector i (list i))) (loop (+ i 1))) 'ok)) "
            "(vector-ref v %d) (vector->list (vector-copy v)) (vector-length (list->vector (vector->list v)))"
            % (n, n, rng.randint(0, n - 1)))


def t_vector_fill(rng):
    """aggregates stored by vector-fill!/make-vector and reachable only through the vector"""
    n = rng.randint(2, 8)
    what = rng.choice(["(list 1 2 3)", "(cons 'a (cons 'b '()))", "(lambda () (list %d))" % n, "(vector 1 (list 2) 3)",
                       "(call/cc (lambda (k) k))", "(string-append \"s\" \"t\")"])
    use = "((vector-ref v 0))" if what.startswith("(lambda") else "(vector-ref v %d)" % rng.randint(0, n - 1)
    return ("(define v (make-vector %d 0)) (vector-fill! v %s) "
            "(define (junk i acc) (if (= i 0) (length acc) (junk (- i 1) (cons (vector i i) acc)))) (junk 40 '()) "
            "%s (define w (make-vector %d %s)) (junk 40 '()) (vector-ref w 0) (vector->list v)"
            % (n, what, use, n, what if not what.startswith("(call/cc") else "(list 7)"))


def t_string(rng):
    n = rng.randint(2, 25)
    return ("(define (rep n acc) (if (= n 0) acc (rep (- n 1) (string-append acc (number->string n) \"-\")))) "
            "(define s (rep %d \"\")) (string-length s) (string->list (substring s 0 3)) "
            "(list->string (reverse (string->list s))) (string-upcase s)" % n)


def t_closure(rng):
    n = rng.randint(2, 15)
    return ("(define (counter) (let ((n 0)) (lambda () (set! n (+ n 1)) n))) "
            "(define cs (map (lambda (i) (counter)) '(%s))) "
            "(map (lambda (c) (c) (c)) cs) "
            "(define (compose f g) (lambda (x) (f (g x)))) "
            "((compose (lambda (x) (* x 2)) (lambda (x) (+ x %d))) 5)"
            % (" ".join(str(i) for i in range(n)), rng.randint(1, 9)))


def t_callcc_args(rng):
    # continuation captured in the middle of an argument list and re-entered
    n = rng.randint(1, 4)
    return ("(define k2 #f) (define n 0) (define log '()) "
            "(define r (list 'a (cons 1 2) (call/cc (lambda (k) (set! k2 k) (vector 1 2))) (string #\\x) (list n))) "
            "(set! log (cons r log)) (set! n (+ n 1)) "
            "(if (< n %d) (k2 (list 're n)) 'done) log" % (n + 1))


def t_callcc_escape(rng):
    n = rng.randint(3, 25)
    return ("(define (find-first p l) (call/cc (lambda (ret) (for-each (lambda (x) (if (p x) (ret (list x 'found)))) l) #f))) "
            "(find-first (lambda (x) (> x %d)) '(%s)) "
            "(+ 1 (call/cc (lambda (k) (+ 10 (k (length (list 1 2 3)))))))"
            % (n // 2, " ".join(str(i) for i in range(n))))


def t_generator(rng):
    n = rng.randint(2, 6)
    return ("(define saved '()) "
            "(define (walk l) (for-each (lambda (x) (call/cc (lambda (k) (set! saved (cons (cons x k) saved))))) l)) "
            "(walk '(%s)) (map car saved) (length saved)" % " ".join(str(i) for i in range(n)))


def t_eval(rng):
    n = rng.randint(2, 12)
    return ("(eval '(let loop ((i 0) (acc '())) (if (= i %d) acc (loop (+ i 1) (cons (* i i) acc))))) "
            "(eval (list '+ 1 (list '* 2 %d))) "
            "(define (mk i) (eval (list 'lambda '(x) (list '+ 'x i)))) ((mk %d) 1) "
            "(eval '(define evd (vector 1 2 3))) evd" % (n, n, n))


def t_symbols(rng):
    names = [_sym(rng) for _ in range(rng.randint(2, 6))]
    body = " ".join('(eq? (string->symbol "%s") \'%s)' % (x, x) for x in names)
    return ("(define (syms n acc) (if (= n 0) acc (syms (- n 1) (cons (string->symbol (string-append \"g\" (number->string n))) acc)))) "
            "(define ss (syms %d '())) (length ss) %s (symbol->string (car ss)) "
            "(eq? (car ss) (string->symbol \"g1\"))" % (rng.randint(2, 30), body))


def t_macro(rng):
    return ("(define-syntax swap! (syntax-rules () ((_ a b) (let ((tmp a)) (set! a b) (set! b tmp))))) "
            "(define-syntax my-list (syntax-rules () ((_ x ...) (list (quote x) ...)))) "
            "(define x (list 1 2)) (define y (vector %d)) (swap! x y) (list x y) (my-list p q %s) "
            "(define-syntax while (syntax-rules () ((_ c body ...) (let lp () (when c body ... (lp)))))) "
            "(define i 0) (define acc '()) (while (< i %d) (set! acc (cons i acc)) (set! i (+ i 1))) acc"
            % (rng.randint(0, 99), _sym(rng), rng.randint(1, 12)))


def t_bignum(rng):
    n = rng.randint(5, 40)
    return ("(define (fact n) (if (= n 0) 1 (* n (fact (- n 1))))) (fact %d) "
            "(let loop ((i 0) (acc 1)) (if (= i %d) acc (loop (+ i 1) (* acc 12345678901)))) "
            "(/ (fact %d) (fact %d)) (exact->inexact (/ 1 3))" % (n, n // 2 + 1, n, n - 1))


def t_promise(rng):
    return ("(define p (delay (begin (display 'once) (list 1 (vector 2))))) (force p) (force p) "
            "(define (ints n) (cons n (delay (ints (+ n 1))))) "
            "(define (take s k) (if (= k 0) '() (cons (car s) (take (force (cdr s)) (- k 1))))) (take (ints 1) %d)"
            % rng.randint(1, 12))


def t_error(rng):
    n = rng.randint(1, 10)
    return ("(define (deep n) (if (= n 0) (car '()) (cons (list n) (deep (- n 1))))) (deep %d) "
            "(define after (list 1 2 3)) (error \"boom\" after '(x . y)) (vector-ref (vector 1 2) 5) after"
            % n)


def t_assoc(rng):
    n = rng.randint(2, 20)
    return ("(define al (map (lambda (i) (cons (string->symbol (string-append \"k\" (number->string i))) (* i i))) '(%s))) "
            "(assq 'k%d al) (assoc \"b\" '((\"a\" . 1) (\"b\" . 2))) (member (list 1) '((0) (1) (2))) "
            "(let* ((a (list 1 2)) (b (append a a)) (c (reverse b))) (list a b c)) `(1 ,(+ 1 1) ,(list 3))"
            % (" ".join(str(i) for i in range(n)), rng.randint(0, n - 1)))


def t_setcar(rng):
    n = rng.randint(2, 20)
    return ("(define cyc (list 1 2 3)) (set-cdr! (cddr cyc) cyc) (car (cdr (cdr (cdr cyc)))) "
            "(define q (list 'h)) (define (push! x) (set-cdr! q (cons x (cdr q)))) "
            "(let loop ((i 0)) (when (< i %d) (push! (make-string 2 #\\z)) (loop (+ i 1)))) (length q) "
            "(define v (vector 1 2 3)) (vector-set! v 0 v) (vector-length (vector-ref v 0))" % n)


def t_cont_session(rng):
    """a continuation session of the C05 generator (captures in operand / tail / internal-definition positions, inside
    procedures with and without parameters, re-entered from later forms) as one program text: under a forced-collection
    schedule everything a saved continuation needs (stack copy, %ep environment, %bp chain) must survive"""
    import scheme_gen as G
    while True:
        forms = G.c05_session(rng, G.Dist(), wide=False)
        text = " ".join(forms)
        # the allocation-heavy "churn" scenarios are for runs WITHOUT a forced schedule (they make natural collections
        # happen); under a collection at every instruction they only exhaust the harness's collection budget
        if "churn" not in text and "(deep" not in text:
            return text


def t_thunk_cont(rng):
    # call/cc directly in the body of a procedure WITHOUT parameters that is the whole top-level form (its frame has
    # %bp = 0), locals live in its environment only; re-entered after the evaluation ended
    n = rng.randint(1, 3)
    return ("(define k3 #f) (define n3 0) "
            "(define (gen3) (define loc 5) (define v (call/cc (lambda (c) (set! k3 c) 1))) (set! loc (+ loc v)) (list loc v)) "
            "(gen3) (list 'between (make-vector 3 0)) "
            "(if (< n3 %d) (begin (set! n3 (+ n3 1)) (k3 (* 10 n3))) 'done) n3" % n)


def t_mixed(rng):
    parts = [rng.choice(TEMPLATES)[1](rng) for _ in range(2)]
    # definitions of the same global name in two templates simply shadow each other
    return " ".join(parts)


TEMPLATES = [("list", t_list), ("vector", t_vector), ("vector-fill", t_vector_fill), ("string", t_string), ("closure", t_closure),
             ("callcc-args", t_callcc_args), ("callcc-escape", t_callcc_escape), ("generator", t_generator),
             ("eval", t_eval), ("symbols", t_symbols), ("macro", t_macro), ("bignum", t_bignum),
             ("promise", t_promise), ("error", t_error), ("assoc", t_assoc), ("setcar", t_setcar),
             ("cont-session", t_cont_session), ("thunk-cont", t_thunk_cont), ("cont-session", t_cont_session)]

RC_CYCLE_WITNESS = "(define v (make-vector 3 0)) (vector-fill! v v) (vector-length v)"


def session_case(mode, k, seed, snap_mod, snap_max, chunk, text, iface=60):
    return [iface, mode, k, seed, snap_mod, snap_max, chunk] + [ord(c) for c in text]


def case_text(case):
    return "".join(chr(c) for c in case[7:])


def describe(case):
    if case[0] in (60, 64):
        mode = {0: "none", 1: "every %d" % case[2], 2: "random seed=%d one-in-%d" % (case[3], case[2])}[case[1]]
        return {"iface": "session", "schedule": mode, "chunk": case[6] or 8192, "program": case_text(case)}
    if case[0] == 61:
        return {"iface": "snapshot", "numbers": len(case)}
    if case[0] == 62:
        return {"iface": "packed-map", "ops": case[1:]}
    return {"iface": case[0]}


def split_line(line):
    """-> (result part, info dict, [(snapshot numbers, after line)])"""
    if " ## " not in line:
        return line, {}, []
    res, rest = line.split(" ## ", 1)
    parts = rest.split(" SNAP ")
    info = dict(kv.split("=", 1) for kv in parts[0].split(" ") if "=" in kv)
    snaps = []
    for s in parts[1:]:
        nums, after = s.split(" AFTER ", 1)
        snaps.append(([int(x) for x in nums.split(" ")], after))
    return res, info, snaps


def crashed(line):
    return (not line) or line.startswith(("ABORT", "TIMEOUT")) or line == "PANIC"


def known_class(case, line):
    if case[0] in (60, 64) and "vector-fill!" in case_text(case) and case[1] != 0 and crashed(line):
        return "gc-rc-cycle-overflow"
    return None


def oracle_session(case, line, none_line):
    """independent statement of the property on the implementation's own output"""
    if crashed(line):
        if crashed(none_line):
            return None      # the program itself crashes without any collection: not a C03 matter
        return "crash: the run under a collection schedule died (%s) while the schedule-free run did not" % (line[:40] or "no output")
    res, info, _ = split_line(line)
    nres, _, _ = split_line(none_line)
    if res != nres:
        return "schedule-dependent: values/failures/output differ from the run without collections"
    if info.get("indep", "ok") != "ok":
        return "independent-traversal: " + info["indep"][:300]
    return None


def schedules_for(rng, tier):
    if tier == "thorough":
        sch = [(1, k, 0) for k in range(1, 17)]
        sch.append((2, rng.randint(2, 9), rng.randint(1, 10 ** 9)))
        return sch
    ks = rng.sample(range(2, 17), 2)
    return [(1, 1, 0), (1, ks[0], 0), (1, ks[1], 0), (2, rng.randint(2, 9), rng.randint(1, 10 ** 9)),
            (2, rng.randint(10, 40), rng.randint(1, 10 ** 9))]


def gen_programs(rng, n):
    out = []
    for i in range(n):
        if rng.random() < 0.15:
            out.append(("mixed", t_mixed(rng)))
        else:
            name, f = TEMPLATES[i % len(TEMPLATES)] if i < 2 * len(TEMPLATES) else rng.choice(TEMPLATES)
            out.append((name, f(rng)))
    return out


def pmap_cases(rng, n):
    out = [[62, 8, 1, 3, 2, 0, 3, 0, 4, 0, 9, 1, 40, 1], [62, 6], [62, 0, 0, 0], [62, 8, 2, 16, 1, 13, 1, 0, 13, 0, 16]]
    for _ in range(n):
        size = rng.choice([4, 8, 12, 16, 32, rng.randint(0, 40)])
        ops = [62, size]
        for _ in range(rng.randint(1, 14)):
            r = rng.random()
            idx = rng.randint(0, max(size + 5, 8))
            if r < 0.5:
                ops += [1, idx, rng.randint(0, 2)]
            elif r < 0.93:
                ops += [0, idx]
            else:
                ops += [2, rng.choice([0, 4, 8, 16, 24, rng.randint(0, 30)])]
        out.append(ops)
    return out


def run_sessions(exe, cases):
    return C.run_impl(exe, cases, timeout=3000)


def main(tier="quick", seed=0, replay=None):
    rep = C.Report(PID, tier, seed)
    rng = random.Random((seed, PID).__repr__())
    try:
        exe = C.build_harness("debug")
        model_exe = C.build_model()
    except C.BuildError as e:
        print("CHECK-ERROR: " + str(e)[-3000:])
        return 2

    if replay:
        data = json.load(open(replay))
        for c in data.get("cases") or ([data["case"]] if data.get("case") else []):
            print("case     :", C.case_line(c)[:1500])
            print("readable :", json.dumps(describe(c))[:2000])
            if c[0] in (60, 64):
                none = [c[0], 0, 0, 0, 0, 0, c[6]] + c[7:]
                il, nl = run_sessions(exe, [c, none])
                print("impl     :", il[:1500])
                print("impl/none:", nl[:1500])
                print("oracle   :", oracle_session(c, il, nl) or "ok")
            else:
                if c[0] != 61:
                    print("impl     :", C.run_impl(exe, [c])[0][:1500])
                print("model    :", C.run_model(model_exe, [c])[0][:1500])
                if data.get("expected_after"):
                    print("impl/after:", data["expected_after"])
        if data.get("broken"):
            print("broken   :", data["broken"])
        return 0

    props = C.check_props(PID, ALLOWED_AXIOMS, thorough=(tier == "thorough"))

    # ------------------------------------------------------------ generate
    nprog = 600 if tier == "quick" else 3000
    progs = [("corpus", t) for t in [
        "(define (f n) (if (= n 0) '() (cons n (f (- n 1))))) (f 5) (display 'x) (car '())",
        "(define k2 #f) (define n 0) (+ 1 (call/cc (lambda (k) (set! k2 k) 1)) (* 2 3)) (set! n (+ n 1)) (if (< n 3) (k2 n) 'done)",
        "(list (call/cc (lambda (k) 1)) (call/cc (lambda (k) (k 2))) (string-append \"a\" \"b\"))",
        # quasiquoted vectors stored in globals (fixed defect b2732b9: VPUSH left an unboxed vector in %acc)
        "(define q `#(1 ,(list 2 3) #(4 ,(list 5)))) (define junk (list 1 2 3 4 5 6)) q (vector-ref q 1)",
        "(define (mk x) `#(a ,(cons x x) ,(list x))) (define v1 (mk 1)) (define junk (list 9 8 7)) v1 (define v2 (mk 2)) v1 v2",
        RC_CYCLE_WITNESS]]
    progs += gen_programs(rng, nprog)
    cases, groups = [], []          # groups: (index of none case, [indices of scheduled cases], kind)
    snap_budget = 160 if tier == "quick" else 1000
    for kind, text in progs:
        chunk = rng.choice([0, 0, 1024, 2048])
        base = len(cases)
        cases.append(session_case(0, 0, 0, 0, 0, chunk, text))
        idxs = []
        for (mode, k, sd) in schedules_for(rng, tier):
            snap_mod, snap_max = 0, 0
            if snap_budget > 0 and rng.random() < 0.12 and "vector-fill!" not in text:
                snap_mod, snap_max = rng.randint(1, 60), 1
                snap_budget -= 1
            idxs.append(len(cases))
            cases.append(session_case(mode, k, sd, snap_mod, snap_max, chunk, text))
        groups.append((base, idxs, kind))
    pm = pmap_cases(rng, 400 if tier == "quick" else 5000)
    C.log("[C03] %d session cases (%d programs), %d packed-map cases" % (len(cases), len(progs), len(pm)))

    # ----------------------------------------------------------------- run
    t0 = time.time()
    lines = run_sessions(exe, cases)
    C.log("[C03] sessions ran in %.1fs" % (time.time() - t0))
    pm_impl = C.run_impl(exe, pm)
    pm_model = C.run_model(model_exe, pm)

    known = {f["id"]: f for f in C.load_known(PID)}
    nontrivial, kinds, viol = set(), {}, []
    gc_total = checked_total = 0
    snap_cases, snap_expected, snap_src = [], [], []
    for base, idxs, kind in groups:
        for i in idxs:
            line = lines[i]
            fid = known_class(cases[i], line)
            if fid and fid in known:
                rep.known(fid, known[fid]["what"])
                continue
            msg = oracle_session(cases[i], line, lines[base])
            if msg:
                viol.append((i, base, msg))
                continue
            res, info, snaps = split_line(line)
            g, ch = int(info.get("forced", 0)), int(info.get("checked", 0))
            gc_total += g
            checked_total += ch
            if g > 0 and ch > 0:
                nontrivial.add(C.digest(cases[i]))
            kinds[kind] = kinds.get(kind, 0) + 1
            for nums, after in snaps:
                snap_cases.append(nums)
                snap_expected.append(after)
                snap_src.append(i)

    # shrink + report oracle failures (one per message kind)
    seen = set()
    for i, base, msg in viol:
        key = msg.split(":")[0]
        if key in seen:
            continue
        seen.add(key)
        small = shrink_session(exe, cases[i], msg)
        il, nl = run_sessions(exe, [small, [small[0], 0, 0, 0, 0, 0, small[6]] + small[7:]])
        rep.violation({"case": small, "original_case": cases[i], "readable": describe(small),
                       "impl": il[:3000], "impl_schedule_none": nl[:3000],
                       "oracle": oracle_session(small, il, nl) or msg})

    # ---------------------------------------------- snapshots through the model
    t0 = time.time()
    snap_model = C.run_model(model_exe, snap_cases) if snap_cases else []
    C.log("[C03] model ran %d snapshots in %.1fs" % (len(snap_cases), time.time() - t0))
    disagreements = []
    snap_nontrivial = 0
    for j, (ml, el) in enumerate(zip(snap_model, snap_expected)):
        if ml != el:
            disagreements.append(j)
        else:
            # freed at least one cell: free-list length after > before
            try:
                nfree_after = int(el.split(" free ")[1].split(" ")[0])
                nums = snap_cases[j]
                # skip cells section to read the free-list length is costly; use alloc count instead
                if nfree_after > 0:
                    snap_nontrivial += 1
                    nontrivial.add(C.digest(("snap", snap_src[j], el)))
            except Exception:
                pass
    pm_dis = [j for j, (a, b) in enumerate(zip(pm_impl, pm_model)) if a != b]
    for j in range(len(pm)):
        if pm_impl[j] == pm_model[j] and " " in pm_impl[j]:
            nontrivial.add(C.digest(pm[j]))

    # kernel cross-check: packed-map cases + a few snapshots
    nk_pm = 150 if tier == "quick" else 1500
    nk_sn = 3 if tier == "quick" else 12
    kcases = pm[:nk_pm] + snap_cases[:nk_sn]
    kexp = pm_model[:nk_pm] + snap_model[:nk_sn]
    try:
        t0 = time.time()
        kbad = C.kernel_crosscheck(kcases, kexp, PID, shard=60)
        C.log("[C03] kernel cross-check of %d cases in %.1fs" % (len(kcases), time.time() - t0))
    except C.BuildError as e:
        print("CHECK-ERROR: kernel cross-check failed to run: " + str(e)[-2000:])
        return 2
    if kbad:
        print("CHECK-ERROR: extracted model and vm_compute disagree on case %s" % C.case_line(kcases[kbad[0]])[:300])
        return 2

    broken = []
    if not props["ok"]:
        broken.append("proof: " + "; ".join(props["problems"])[:1500])
    if (disagreements or pm_dis) and not rep.violations:
        # correspondence broken without an oracle failure on the sessions that were run: search more
        # schedules of the programs whose snapshots disagree for an oracle failure
        found = False
        for j in disagreements[:20]:
            src = cases[snap_src[j]]
            pool = [session_case(1, k, 0, 0, 0, src[6], case_text(src)) for k in range(1, 17)]
            pool.append(session_case(0, 0, 0, 0, 0, src[6], case_text(src)))
            out = run_sessions(exe, pool)
            for c, l in zip(pool[:-1], out[:-1]):
                msg = oracle_session(c, l, out[-1])
                if msg:
                    rep.violation({"case": c, "readable": describe(c), "impl": l[:3000], "oracle": msg})
                    found = True
                    break
            if found:
                break
        if not found:
            if disagreements:
                j = disagreements[0]
                broken.append("correspondence %s: model and implementation differ on %d snapshot(s)"
                              % (CORRESPONDENCE, len(disagreements)))
                rep.violation({"case": snap_cases[j], "from_session": cases[snap_src[j]],
                               "readable": describe(cases[snap_src[j]]),
                               "expected_after": snap_expected[j], "model": snap_model[j],
                               "broken": "the heap after a real collection differs from Model/Gc.v's mark+sweep on the "
                                         "snapshot taken before it; theorems relying on the correspondence: "
                                         + ", ".join(props["theorems"]),
                               "n_disagreements": len(disagreements)}, no_input=True)
            else:
                j = pm_dis[0]
                broken.append("correspondence gc.rs Map vs Model/Gc.v pmap: %d case(s)" % len(pm_dis))
                rep.violation({"case": pm[j], "readable": describe(pm[j]), "impl": pm_impl[j], "model": pm_model[j],
                               "broken": "packed two-bit map: implementation and model differ; theorem relying on it: "
                                         "C03_packed_map_get_set"}, no_input=True)
    if not props["ok"] and not rep.violations:
        rep.violation({"broken": "proof obligation no longer checks: %s (%s)"
                                 % (props.get("broken_at", props["file"]), "; ".join(props["problems"])[:1500]),
                       "cases": []}, no_input=True)

    samples = []
    for i in (1, 7, 13):
        if i < len(cases):
            samples.append({"readable": describe(cases[i]), "impl": lines[i][:300]})
    if snap_cases:
        samples.append({"snapshot_of": describe(cases[snap_src[0]]), "numbers": len(snap_cases[0]),
                        "impl_after": snap_expected[0], "model": snap_model[0]})
    samples.append({"packed_map": pm[5], "impl": pm_impl[5], "model": pm_model[5]})
    for t in props["theorems"][:4]:
        samples.append({"obligation": "%s.%s" % (props["file"], t)})
    rep.coverage = {
        "obligations": props["obligations"], "discharged": props["discharged"],
        "checker_cmd": "make -C coq %so  (coqc 8.16.1, full .vo; property file recompiled in this run%s)"
                       % (props["file"], "; cone rebuilt from clean + coqchk -o" if tier == "thorough" else ""),
        "trusted_base": C.TRUSTED_BASE_COMMON + TRUSTED_BASE,
        "theorems": props["theorems"], "axioms_reported": props["axioms"],
        "cone_files": props.get("cone_files", []), "proof_problems": props["problems"],
        "open_statements": ["roots_complete_stmt", "no_dangling_stmt", "step_respects_heap_iso_stmt"],
        "evaluations": len(cases) + len(snap_cases) + len(pm),
        "distinct_nontrivial": len(nontrivial),
        "rule": RULE, "samples": samples, "exhaustive": False, "profiles": PROFILES,
        "kernel_crosscheck": len(kcases),
        "programs": len(progs), "session_cases": len(cases),
        "forced_collections": gc_total, "collections_checked_by_independent_traversal": checked_total,
        "snapshots_compared_with_model": len(snap_cases), "snapshot_disagreements": len(disagreements),
        "snapshots_nontrivial": snap_nontrivial,
        "packed_map_cases": len(pm), "packed_map_disagreements": len(pm_dis),
        "oracle_failures": len(viol),
        "distribution": {"template_kinds": kinds, "schedules_per_program": len(groups[0][1]) + 1 if groups else 0,
                         "chunks": [8192, 1024, 2048]},
        "known_findings_seen": sorted(rep.known_seen), "broken": broken,
    }
    if "coqchk" in props:
        rep.coverage["coqchk"] = props["coqchk"]
    rep.assumptions = ASSUMPTIONS
    return rep.finish()


def shrink_session(exe, case, msg):
    """drop top-level forms (greedy) while the oracle still fails"""
    import pylex
    text = case_text(case)
    forms = split_forms(text)
    cur = forms
    progress = True
    while progress and len(cur) > 1:
        progress = False
        for i in range(len(cur)):
            cand = cur[:i] + cur[i + 1:]
            t = " ".join(cand)
            c = case[:7] + [ord(ch) for ch in t]
            n = [case[0], 0, 0, 0, 0, 0, case[6]] + [ord(ch) for ch in t]
            il, nl = run_sessions(exe, [c, n])
            if oracle_session(c, il, nl):
                cur, progress = cand, True
                break
    t = " ".join(cur)
    return case[:7] + [ord(ch) for ch in t]


def split_forms(text):
    forms, depth, cur, in_str, esc = [], 0, "", False, False
    for ch in text:
        cur += ch
        if in_str:
            if esc:
                esc = False
            elif ch == "\\":
                esc = True
            elif ch == '"':
                in_str = False
                if depth == 0:
                    forms.append(cur.strip()); cur = ""
            continue
        if ch == '"':
            in_str = True
        elif ch == "(":
            depth += 1
        elif ch == ")":
            depth -= 1
            if depth == 0:
                forms.append(cur.strip()); cur = ""
        elif ch == " " and depth == 0:
            if cur.strip():
                forms.append(cur.strip())
            cur = ""
    if cur.strip():
        forms.append(cur.strip())
    # re-attach quote characters split from their datum
    out = []
    for f in forms:
        if out and out[-1] in ("'", "`", ","):
            out[-1] += f
        else:
            out.append(f)
    return out
