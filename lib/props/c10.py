"""C10 — written data reads back as the same data (write -> read -> write stable;
quote-evaluate returns the datum: source text -> VM heap -> result -> text)."""
import decimal, math, re, struct
from fractions import Fraction
import pylex

PID = "C10"
ALLOWED_AXIOMS = ["Classical_Prop.classic", "ClassicalDedekindReals.sig_forall_dec",
                  "ClassicalDedekindReals.sig_not_dec", "FunctionalExtensionality.functional_extensionality_dep"]
PROFILES = ["debug"]
CORRESPONDENCE = ("cell.rs Display for Cell ({:#} and {}), char.rs write_escaped_char/named_to_char, number.rs Display, "
                  "lex::scan, parse::parse_text (char/string/number literal decoding), Vm::eval of (quote d) "
                  "(compile, Heap::put_cell / get_as_cell) vs Model/Datum.v, NumFmt.v, Lex.v, Parse.v, Heap.v, Vm.v "
                  "through Model/WireDatum.v")
RULE = ("a datum is BUILT (never parsed) from a wire encoding by a recursive generator: finite doubles by bit pattern "
        "(uniform over sign/exponent/mantissa + boundaries +-0, subnormals, 1e10 +- ulp, 2^53, 2^63, max, short decimals, "
        "integer-valued), integers across the fixnum/bignum boundary in both representations (BigInt also carrying small "
        "values), reduced rationals with i32 parts, every Unicode scalar value as a character and inside strings "
        "(exhaustive in thorough: all 1 112 064, packed in vectors/strings of 48 and a sample alone; quick: all below 0x300 "
        "+ boundaries + a uniform sample, 20 k), symbols of every lexical shape the reader can produce (spelling scans "
        "to one Symbol token, or to one Number token that fails the radix-10 parse: + - ... -x 1+ a;b .a 1/0 -a, "
        "non-ASCII, backslash), proper/improper lists, vectors, quote/quasiquote/unquote forms (incl. degenerate "
        "(quote), (quote . x), (quote x y)), containers to depth 6. A second stream gives SOURCE TEXTS (tag 12: tokens "
        "with random separators, comments, [ ] { } brackets, #x/#e/#i prefixes) whose datum is the reader's own. Per "
        "datum: interface 7 (write, re-read dump, rest, re-write), 8 ((quote d) through Vm::eval on a booted "
        "machine), 9 (display) on part of them. non-trivial = the oracle's comparison ran on a datum that is not "
        "a bare boolean/nil/small fixnum/plain ASCII symbol; distinct by case hash")
ASSUMPTIONS = [
    "the harness builds Cell values directly (Number::Fixnum, Number::new_bigint, Rational32::new_raw, f64::from_bits, "
    "char::from_u32, String) and dumps results structurally; its decoder is checked on every case (the dump of the "
    "input datum is compared with the case by the oracle)",
    "std float formatting/parsing is trusted as specified in Model/F64Fmt.v (see C16); float clauses are relative to the "
    "OPEN statements of Props/C16.v",
    "the machine of interface 8 is reused across the cases of a harness process (heap growth and collections in "
    "between); the model evaluates each case on a freshly booted machine",
]
TRUSTED_BASE = ["Flocq 4 BinarySingleNaN (executable binary64 definitions; the standard real-number axioms come with it)"]
KERNEL_SAMPLE = {"quick": 150, "thorough": 1500}
KERNEL_MAXLEN = 160
MANIFEST = dict(
    text="Coq theorems over hand-written models of the datum printer (cell.rs Display, char.rs, number.rs Display), the "
         "scanner, the parser with its literal decoders, and Heap::put_cell/get_as_cell: (a) for EVERY code point c the written "
         "character literal is one Char token (also before a delimiter) and parse_char inverts the printer (the named arms of "
         "char.rs after is_control are unreachable); (b) for every text of scalar values the written string is one String "
         "token and parse_string gives the text back; (c) booleans, the reader's symbols (spelling = one Symbol token, or one "
         "Number token failing the radix-10 parse), exact numbers in every representation (through the C16 lemmas) and finite "
         "doubles (relative to the three OPEN statements of C16 about std's float formatting) are leaf tokens that read back; "
         "(e) composite write_read: for every readable datum - atoms, proper/improper lists, quote forms, vectors, nested "
         "without bound - parse_text (write d) = Ok (reread_cell d, None), where reread_cell only normalises the representation "
         "of exact numbers (same value and exactness), and write_stable: write (reread_cell d) = write d; (d) heap round trip: "
         "on every heap satisfying the C18 interning invariant put_cell stores every heap datum and get_as_cell returns it "
         "unchanged. The recorded class prefix-path-symbol is refuted by a kernel-checked witness ('#b12). Tied to /repo by a "
         "3-way differential (impl / extracted model / vm_compute) on data BUILT from a wire encoding (all 1.1 M scalar values "
         "exhaustively in the thorough tier) and on source texts, with an independent Python oracle on the implementation's output.",
    design="DESIGN.md section 5 C10",
    note="Evaluating (quote d) returns d: proved through the C01 fragment theorem (expansion, compilation, the instruction run, HALT) on the BOOTED machine and on every state of a session (C10_quote_eval_vm_booted, C10_quote_eval_vm_session; the machine invariant is proved by preservation, the boot is never evaluated), for every heap datum d, up to the model's own fuels (the conclusion is 'd, or out of model fuel': the Rust conversion has no bound); also checked by wire interface 8 on every generated datum. OPEN as well: the three std float statements "
         "C10_std_roundtrip_stmt, C10_display_point_stmt, C10_no_inner_minus_stmt (= the OPEN statements of C16, hypotheses of "
         "C10_write_read / C10_float_atom; a datum without floats does not use them in substance). Known finding prefix-path-symbol (open, not small: parse_number accepts any token after a number "
         "prefix). Trusted: Coq kernel; hand-written model tied by sampling correspondence (exhaustive over scalar values in "
         "thorough); std float formatting/parsing as specified in Model/F64Fmt.v; Rust harness building Cell values and the "
         "structural dump; extraction + OCaml driver (cross-checked in-kernel); Python oracle. Axioms: character, string, "
         "heap and write_stable theorems are closed under the global context; statements that mention the parser inherit the "
         "four standard real-number axioms through Flocq's binary64 definitions in the number-literal decoder "
         "(Classical_Prop.classic, ClassicalDedekindReals.sig_forall_dec, sig_not_dec, "
         "FunctionalExtensionality.functional_extensionality_dep).",
    technique="Rocq/Coq proof (finite reflection over control characters, induction over texts and data, a separable-token "
              "rendering invariant, a logical relation over heap extensions) + model/implementation correspondence check")

I64_MIN, I64_MAX = -2**63, 2**63 - 1
I32_MIN, I32_MAX = -2**31, 2**31 - 1


# ------------------------------------------------------------------ datum values
# ('nil',) ('bool',b) ('ch',cp) ('fix',z) ('big',z) ('rat',n,d) ('flo',bits) ('str',(cps)) ('sym',(cps))
# ('pair',a,d) ('vec',(items)) ('src',(cps))  -- src: the datum the reader makes of this text
NIL = ("nil",)


def sym(s): return ("sym", tuple(ord(c) for c in s))
def string(s): return ("str", tuple(ord(c) for c in s))
def lst(items, tail=NIL):
    d = tail
    for x in reversed(items):
        d = ("pair", x, d)
    return d
def f2b(x): return struct.unpack("<Q", struct.pack("<d", x))[0]
def b2f(b): return struct.unpack("<d", struct.pack("<Q", b))[0]
def flo(x): return ("flo", f2b(x))


def enc(d):
    t = d[0]
    if t == "nil": return [0]
    if t == "bool": return [2 if d[1] else 1]
    if t == "ch": return [3, d[1]]
    if t == "fix": return [4, 1 if d[1] < 0 else 0, abs(d[1])]
    if t == "big": return [5, 1 if d[1] < 0 else 0, abs(d[1])]
    if t == "rat": return [6, 1 if d[1] < 0 else 0, abs(d[1]), 1 if d[2] < 0 else 0, abs(d[2])]
    if t == "flo": return [7, d[1]]
    if t == "str": return [8, len(d[1])] + list(d[1])
    if t == "sym": return [9, len(d[1])] + list(d[1])
    if t == "src": return [12, len(d[1])] + list(d[1])
    if t == "pair": return [10] + enc(d[1]) + enc(d[2])
    if t == "vec":
        out = [11, len(d[1])]
        for x in d[1]:
            out += enc(x)
        return out
    raise ValueError(d)


def dec(c, i=0):
    """inverse of enc on a case body -> (datum, next index)"""
    t = c[i]
    if t == 0: return NIL, i + 1
    if t in (1, 2): return ("bool", t == 2), i + 1
    if t == 3: return ("ch", c[i + 1]), i + 2
    if t in (4, 5): return ("fix" if t == 4 else "big", -c[i + 2] if c[i + 1] else c[i + 2]), i + 3
    if t == 6: return ("rat", -c[i + 2] if c[i + 1] else c[i + 2], -c[i + 4] if c[i + 3] else c[i + 4]), i + 5
    if t == 7: return ("flo", c[i + 1]), i + 2
    if t in (8, 9, 12):
        n = c[i + 1]
        return ({8: "str", 9: "sym", 12: "src"}[t], tuple(c[i + 2:i + 2 + n])), i + 2 + n
    if t == 10:
        a, j = dec(c, i + 1)
        b, k = dec(c, j)
        return ("pair", a, b), k
    if t == 11:
        n, j, items = c[i + 1], i + 2, []
        for _ in range(n):
            x, j = dec(c, j)
            items.append(x)
        return ("vec", tuple(items)), j
    raise ValueError("tag %r" % t)


def parse_dump(toks, i):
    """the structural dump printed by both executables -> (datum, next index)"""
    k = toks[i]
    if k == "nil": return NIL, i + 1
    if k == "t": return ("bool", True), i + 1
    if k == "f": return ("bool", False), i + 1
    if k == "ch": return ("ch", int(toks[i + 1], 16)), i + 2
    if k in ("FIX", "BIG"):
        v = int(toks[i + 2])
        return (k.lower(), -v if toks[i + 1] == "1" else v), i + 3
    if k == "RAT":
        n, d = int(toks[i + 2]), int(toks[i + 4])
        return ("rat", -n if toks[i + 1] == "1" else n, -d if toks[i + 3] == "1" else d), i + 5
    if k == "FLO": return ("flo", int(toks[i + 1], 16)), i + 2
    if k in ("str", "sym"):
        n = int(toks[i + 1])
        return (k, tuple(int(x, 16) for x in toks[i + 2:i + 2 + n])), i + 2 + n
    if k == "pair":
        a, j = parse_dump(toks, i + 1)
        b, j = parse_dump(toks, j)
        return ("pair", a, b), j
    if k == "vec":
        n, j, items = int(toks[i + 1]), i + 2, []
        for _ in range(n):
            x, j = parse_dump(toks, j)
            items.append(x)
        return ("vec", tuple(items)), j
    if k == "other": return ("other",), i + 1
    raise ValueError("dump token %r" % k)


NUMT = ("fix", "big", "rat", "flo")


def exact_value(d):
    if d[0] in ("fix", "big"): return Fraction(d[1])
    return Fraction(d[1], d[2]) if d[2] else None


def same(a, b):
    """identical in structure, value and exactness: exact numbers by exact value (a Fixnum and a BigInt carrying the
    same integer are the same number), floats by bit pattern, everything else literally"""
    while True:
        ta, tb = a[0], b[0]
        if ta in NUMT or tb in NUMT:
            if ta not in NUMT or tb not in NUMT: return False
            if ta == "flo" or tb == "flo": return ta == tb and a[1] == b[1]
            return exact_value(a) is not None and exact_value(a) == exact_value(b)
        if ta != tb: return False
        if ta == "pair":
            if not same(a[1], b[1]): return False
            a, b = a[2], b[2]
            continue
        if ta == "vec":
            return len(a[1]) == len(b[1]) and all(same(x, y) for x, y in zip(a[1], b[1]))
        return a == b


# ------------------------------------------------- the reader's symbols (Python definition)
_NUM10 = re.compile(r"[+-]?\d+\Z|[+-]?\d+/\d+\Z|[+-]?(\d+\.?\d*|\.\d+)([eE][+-]?\d+)?\Z")


def parses_radix10(s):
    """Number::parse(s, 10) succeeds, for the spellings a Number token can have (digits, a-f, . / and a leading sign)"""
    m = _NUM10.match(s)
    if not m: return False
    if "/" in s: return int(s.split("/")[1]) != 0
    return True


def one_token(cps):
    """the token type when the text scans to exactly one token spanning all of it, else None"""
    if not cps: return None
    st, toks = pylex.scan(list(cps))
    if st != "OK" or len(toks) != 1: return None
    a, b, ty = toks[0]
    if a != 0 or b != sum(pylex.u8(c) for c in cps): return None
    return ty


def reader_symbol(cps):
    """a spelling the reader produces as a symbol on its own: one Symbol token, or one Number token that fails
    the radix-10 parse"""
    ty = one_token(cps)
    if ty == "Symbol": return True
    if ty == "Number": return not parses_radix10("".join(chr(c) for c in cps))
    return False


def prefix_path_only(cps):
    """a symbol the reader yields only after #b/#o/#d/#x/#e/#i (parse_number makes a symbol of the next token's
    spelling whatever its type when it is not a number in that radix)"""
    ty = one_token(cps)
    return ty is not None and ty != "NumberPrefix" and not reader_symbol(cps)


def walk(d):
    stack = [d]
    while stack:
        x = stack.pop()
        yield x
        if x[0] == "pair": stack += [x[2], x[1]]
        elif x[0] == "vec": stack += list(x[1])


def depth(d):
    if d[0] == "pair": return 1 + max(depth(d[1]), depth(d[2]) - 1 if d[2][0] == "pair" else depth(d[2]))
    if d[0] == "vec": return 1 + max([depth(x) for x in d[1]] + [0])
    return 0


# ---------------------------------------------------------- independent printer
def is_control(c): return c < 32 or 127 <= c <= 159


def rust_float(bits):
    """number.rs Display for a finite double: {:e} above 1e10, {:.1} when integer-valued, {} otherwise"""
    x = b2f(bits)
    if x > 1e10:
        sign, digits, exp = decimal.Decimal(repr(x)).as_tuple()
        ds = "".join(str(k) for k in digits).rstrip("0") or "0"
        e10 = len(digits) - 1 + exp
        return ds[0] + ("." + ds[1:] if len(ds) > 1 else "") + "e" + str(e10)
    if x == math.floor(x):
        return "%.1f" % x
    return format(decimal.Decimal(repr(x)), "f")


NAMED_STR = {34: '\\"', 92: "\\\\", 9: "\\t", 10: "\\n", 13: "\\r", 27: "\\e", 7: "\\a", 8: "\\b", 11: "\\v", 12: "\\f"}


def py_parts(d, alt, out):
    """the printed form as a list of pieces; a float is the piece ('flo', bits)"""
    t = d[0]
    if t == "nil": out.append("()")
    elif t == "bool": out.append("#t" if d[1] else "#f")
    elif t == "ch":
        c = d[1]
        if not alt: out.append(chr(c))
        elif c == 32: out.append("#\\space")
        elif c == 10: out.append("#\\newline")
        elif is_control(c): out.append("#\\x%x" % c)
        else: out.append("#\\" + chr(c))
    elif t in ("fix", "big"): out.append(str(d[1]))
    elif t == "rat": out.append(str(d[1]) if d[2] == 1 else "%d/%d" % (d[1], d[2]))
    elif t == "flo": out.append(d)
    elif t == "sym": out.append("".join(chr(c) for c in d[1]))
    elif t == "str":
        if not alt: out.append("".join(chr(c) for c in d[1]))
        else: out.append('"' + "".join(NAMED_STR.get(c) or ("\\x%x;" % c if is_control(c) else chr(c)) for c in d[1]) + '"')
    elif t == "vec":
        out.append("#(")
        for i, x in enumerate(d[1]):
            if i: out.append(" ")
            py_parts(x, alt, out)
        out.append(")")
    elif t == "pair":
        a, r = d[1], d[2]
        if a == sym("quote") and r[0] == "pair" and r[2] == NIL:
            out.append("'")
            py_parts(r[1], alt, out)
            return
        out.append("(")
        py_parts(a, alt, out)
        while r[0] == "pair":
            out.append(" ")
            py_parts(r[1], alt, out)
            r = r[2]
        if r != NIL:
            out.append(" . ")
            py_parts(r, alt, out)
        out.append(")")
    else:
        out.append("#<other>")


def py_show(d, alt):
    out = []
    py_parts(d, alt, out)
    return "".join(p if isinstance(p, str) else rust_float(p[1]) for p in out)


def matches_show(d, alt, word):
    """[word] (escaped as on the wire) is the printed form of d; float spellings are not predicted digit for
    digit (shortest-digit ties are std's business, C16): they must have the shape the printer's format choice
    gives and denote the same double"""
    out = []
    py_parts(d, alt, out)
    rx, floats = "", []
    for p in out:
        if isinstance(p, str):
            rx += re.escape(esc_word(p))
        else:
            rx += "(-?[0-9]+(?:\\.[0-9]+)?(?:e[0-9]+)?)"
            floats.append(p[1])
    m = re.fullmatch(rx, word)
    if not m:
        return False
    for g, bits in zip(m.groups(), floats):
        x = b2f(bits)
        if f2b(float(g)) != bits:
            return False
        if (x > 1e10) != ("e" in g) or ("e" not in g and "." not in g):
            return False
    return True


def esc_word(s):
    return "".join(ch if 33 <= ord(ch) <= 126 and ch != "\\" else "\\u{%x}" % ord(ch) for ch in s)


# ------------------------------------------------------------------ generators
FLOAT_PALETTE = sorted(set(
    [0, 1 << 63, 1, 2, 3, (1 << 63) | 1, 0x000fffffffffffff, 0x0010000000000000, 0x0010000000000001,
     0x7fefffffffffffff, 0xffefffffffffffff, 0x3ff0000000000000, 0xbff0000000000000, 0x3fe0000000000000]
    + [f2b(1e10) + o for o in (-3, -2, -1, 0, 1, 2, 3)] + [f2b(-1e10) + o for o in (-1, 0, 1)]
    + [f2b(2.0**k) + o for k in (31, 52, 53, 54, 62, 63, 64, 127, 1023) for o in (-1, 0, 1)]
    + [f2b(-(2.0**k)) + o for k in (31, 53, 63, 64) for o in (-1, 0, 1)]
    + [f2b(x) for x in (1e22, 1e23, 9.999999999999999e22, 1e21, 1e16, 1e15, 123456789012.5, 2.0**50 + 0.25, 5e-324,
                        2.2250738585072014e-308, 2.225073858507201e-308, 0.1, 0.3, 1.5, -42.42, 42.5, 1e-7, 1e-5,
                        9.5, 0.000123, 6.02214076e23, 1.7976931348623157e308, 4.35, 0.5, 2.5, 1e300, -1e300,
                        9999999999.0, 10000000000.0, 10000000001.0, 9999999999.999998, 1e11, 3.141592653589793)]))
INT_PALETTE = sorted(set(
    [0, 1, -1, 2, -2, 7, -7, 10, -10, 255, 12345, -98765]
    + [s * (2**k + o) for s in (1, -1) for k in (31, 32, 53, 62, 63, 64, 127, 128) for o in (-2, -1, 0, 1, 2)]
    + [10**k for k in (9, 10, 18, 19, 20, 30)] + [-10**k for k in (10, 19, 20)]))


def rand_float(rng):
    r = rng.random()
    if r < 0.2:
        b = rng.choice(FLOAT_PALETTE)
    elif r < 0.55:      # uniform over sign, exponent field and mantissa
        b = (rng.getrandbits(1) << 63) | (rng.randrange(0, 2047) << 52) | rng.getrandbits(52)
    elif r < 0.7:       # short decimals
        x = rng.randint(0, 10**rng.randint(1, 17)) / 10.0**rng.randint(0, 20)
        if rng.random() < 0.3:
            x *= 10.0**rng.randint(-300, 290)
        b = f2b(x if rng.random() < 0.7 else -x)
    elif r < 0.8:       # integer-valued
        b = f2b(float(rng.randint(-2**rng.randint(1, 70), 2**rng.randint(1, 70))))
    elif r < 0.93:      # around the format switch and the integer edges
        base = rng.choice([1e10, 1e10, 1e10, 2.0**53, 2.0**63, 1.0, 1e15, 1e16, 1e17, 1e21, 1e22])
        b = f2b(base) + rng.randint(-40, 40)
        if rng.random() < 0.3:
            b |= 1 << 63
    else:               # subnormals
        b = max(1, rng.getrandbits(rng.randint(1, 52))) | (rng.getrandbits(1) << 63)
    if ((b >> 52) & 0x7ff) == 0x7ff:
        b &= ~(1 << 62)
    return ("flo", b)


def rand_int(rng):
    r = rng.random()
    if r < 0.3: z = rng.choice(INT_PALETTE)
    elif r < 0.5: z = rng.randint(-1000, 1000)
    elif r < 0.75: z = rng.randint(I64_MIN, I64_MAX)
    else:
        z = rng.getrandbits(rng.choice([32, 63, 64, 65, 70, 100, 128, 200, 300]))
        z = -z if rng.random() < 0.5 else z
    if I64_MIN <= z <= I64_MAX and rng.random() < 0.65:
        return ("fix", z)
    return ("big", z)


def rand_rational(rng):
    while True:
        r = rng.random()
        if r < 0.35: n, d = rng.randint(-50, 50), rng.randint(2, 50)
        elif r < 0.55:
            n = rng.choice([I32_MIN, I32_MIN + 1, I32_MAX, I32_MAX - 1, 1, -1, 2**30, -2**30])
            d = rng.choice([2, 3, 7, I32_MAX, I32_MAX - 1, 2**30])
        else: n, d = rng.randint(I32_MIN, I32_MAX), rng.randint(2, I32_MAX)
        g = math.gcd(n, d)
        n, d = n // g, d // g
        if d >= 2 and I32_MIN <= n <= I32_MAX:
            return ("rat", n, d)


SCALAR_EDGES = [0, 7, 8, 9, 10, 11, 12, 13, 27, 31, 32, 34, 39, 40, 41, 44, 46, 59, 92, 96, 120, 124, 126, 127, 128, 133, 159, 160,
                0xAA, 0xB5, 0xD7, 0xF7, 0xFF, 0x100, 0x3BB, 0x7FF, 0x800, 0x2028, 0x2029, 0x3000, 0xD7FF, 0xE000, 0xFEFF, 0xFFFD,
                0xFFFF, 0x10000, 0x1F600, 0xE0001, 0x10FFFF]


def rand_scalar(rng):
    r = rng.random()
    if r < 0.3: return rng.randrange(0x20, 0x7f)
    if r < 0.45: return rng.choice(SCALAR_EDGES)
    if r < 0.6: return rng.randrange(0, 0x300)
    while True:
        c = rng.randrange(0, 0x110000)
        if not 0xD800 <= c <= 0xDFFF:
            return c


def all_scalars():
    return list(range(0, 0xD800)) + list(range(0xE000, 0x110000))


STR_POOL = [34, 92, 9, 10, 13, 27, 7, 8, 11, 12, 0, 127, 0x85, 0x9f, 59, 120, 52, 49, 97, 32, 40, 41, 35, 39, 124, 0xe9, 0x3bb, 0x2028, 0x1f600]


def rand_string(rng):
    n = rng.choice([0, 1, 1, 2, 3, 5, 8, 13])
    return ("str", tuple(rng.choice(STR_POOL) if rng.random() < 0.5 else rand_scalar(rng) for _ in range(n)))


PECULIAR = ["+", "-", "...", "-x", "1+", "a;b", "->x", "+.", "-.", "..", ".a.", "1/2/3", "-a", "1e", "+e1", "1.2.3", ".e1", "1/0",
            "0x10", "1a", "--", "+-", "+5x", ".a", ".x", "a.b", "-1/0", "+inf", "-nan", "inf", "nan", "1e5x", "1/", "/", "1//2",
            "a\\b", "\\", "quote", "quasiquote", "unquote", "lambda", "λ", "x→y", "é", "aª", "　", "a b", "😀", "1-", "1+2",
            "+a", "-f", ".f", "1_0", "_", "1e+5", "1.5e-3", "-.e", "+/", "0/0", "9/00", "a#", "a'b".replace("'", "!"), "<=?", "set!"]
INITIALS = list("abcdefghijklmnopqrstuvwxyzABCXYZ!$%&*/:<=>?^_~\\") + ["λ", "é", "ª", "µ", "中", "😀", "　", "Ā", "￿"]
SUBSEQ = INITIALS + list("0123456789+-.@;")
NUMCH = list("0123456789abcdefABCDEF./")


def rand_symbol(rng, dist):
    for _ in range(50):
        r = rng.random()
        if r < 0.25:
            s = rng.choice(PECULIAR)
        elif r < 0.6:
            s = rng.choice(INITIALS) + "".join(rng.choice(SUBSEQ) for _ in range(rng.choice([0, 1, 2, 3, 5, 8])))
        elif r < 0.8:   # number-initial: stays a Number token or degrades to a Symbol token
            s = rng.choice(list("0123456789+-.")) + "".join(rng.choice(NUMCH if rng.random() < 0.7 else SUBSEQ)
                                                            for _ in range(rng.choice([0, 1, 2, 3, 5])))
        else:
            s = "".join(chr(rand_scalar(rng)) for _ in range(rng.randint(1, 4)))
        cps = tuple(ord(c) for c in s)
        if reader_symbol(cps):
            dist["sym_" + one_token(cps)] = dist.get("sym_" + one_token(cps), 0) + 1
            return ("sym", cps)
        dist["sym_rejected"] = dist.get("sym_rejected", 0) + 1
    return sym("x")


def rand_atom(rng, dist):
    r = rng.random()
    if r < 0.2: d = rand_float(rng)
    elif r < 0.35: d = rand_int(rng)
    elif r < 0.43: d = rand_rational(rng)
    elif r < 0.58: d = ("ch", rand_scalar(rng))
    elif r < 0.72: d = rand_string(rng)
    elif r < 0.92: d = rand_symbol(rng, dist)
    elif r < 0.96: d = ("bool", rng.random() < 0.5)
    else: d = NIL
    return d


def rand_datum(rng, dp, dist, budget):
    """dp = remaining nesting depth; budget = [remaining nodes]"""
    budget[0] -= 1
    if dp <= 0 or budget[0] <= 0 or rng.random() < 0.3:
        return rand_atom(rng, dist)
    r = rng.random()
    sub = lambda: rand_datum(rng, dp - 1, dist, budget)
    if r < 0.3:
        return lst([sub() for _ in range(rng.randint(0, 4))])
    if r < 0.45:
        items = [sub() for _ in range(rng.randint(1, 3))]
        tail = rand_atom(rng, dist)
        return lst(items, tail)
    if r < 0.65:
        return ("vec", tuple(sub() for _ in range(rng.randint(0, 4))))
    if r < 0.85:
        head = rng.choice(["quote", "quote", "quasiquote", "unquote"])
        k = rng.random()
        if k < 0.8: return lst([sym(head), sub()])
        if k < 0.86: return lst([sym(head)])
        if k < 0.93: return lst([sym(head), sub(), sub()])
        return ("pair", sym(head), rand_atom(rng, dist))
    return ("pair", sub(), sub())


def nest(rng, dist, levels):
    """a datum whose nesting depth is exactly [levels] along one spine"""
    d = rand_atom(rng, dist)
    for _ in range(levels):
        k = rng.random()
        side = [rand_atom(rng, dist) for _ in range(rng.randint(0, 2))]
        if k < 0.4: d = lst(side + [d])
        elif k < 0.6: d = ("vec", tuple(side + [d]))
        elif k < 0.75: d = lst([sym(rng.choice(["quote", "quasiquote", "unquote"])), d])
        elif k < 0.9: d = lst(side + [rand_atom(rng, dist)], d) if d != NIL else lst(side + [d])
        else: d = ("pair", d, rand_atom(rng, dist))
    return d


# source texts (tag 12): the reader's own datum
SRC_ATOMS = ["a", "foo", "+", "-", "...", "1+", "-x", "a;b", "λ", "#t", "#f", "0", "-7", "42", "+5", "123456789012345678901234567890",
             "-9223372036854775808", "9223372036854775808", "1/2", "-3/4", "6/4", "4/2", "1.5", "-0.0", ".5", "1e3", "6.02e23", "1e21", "1e-7",
             "#x1F", "#b101", "#e1.5", "#i3", "#o17", "#d9", "#x-a", "#xff", "#e.5", "#i1/3", "#xzz", "#e1e3", "#x1/2", "1/0", "-a", ".a",
             "#\\a", "#\\space", "#\\newline", "#\\x41", "#\\λ", "#\\(", "#\\tab", "#\\x3bb", "#\\1", "#\\;", "#\\x", "#\\delete", "#\\null",
             "#\\alarm", "#\\backspace", "#\\escape", "#\\return", "#\\x7f", "#\\x0", "#\\\"", "#\\\\", "#\\'",
             '""', '"a"', '"a b"', '"\\n"', '"\\""', '"\\\\"', '"\\x41;"', '"(λ)"', '";"', '"a\\tb"', '"\\q"', '"\\x3bb;\\x0;"', '"\n"', '"\t"']


def gen_src_tokens(rng, dp):
    r = rng.random()
    if dp <= 0 or r < 0.45:
        return [rng.choice(SRC_ATOMS)]
    if r < 0.6:
        return [rng.choice(["'", "`", ",", "'"])] + gen_src_tokens(rng, dp - 1)
    if r < 0.7:
        toks = ["#("]
        for _ in range(rng.randint(0, 3)):
            toks += gen_src_tokens(rng, dp - 1)
        return toks + [")"]
    op, cl = rng.choice([("(", ")"), ("(", ")"), ("[", "]"), ("{", "}")])
    toks, n = [op], rng.randint(0, 4)
    for _ in range(n):
        toks += gen_src_tokens(rng, dp - 1)
    if n > 0 and rng.random() < 0.2:
        toks += ["."] + gen_src_tokens(rng, dp - 1)
    return toks + [cl]


def render_src(rng, toks):
    out = ""
    for i, t in enumerate(toks):
        if i > 0:
            prev = toks[i - 1]
            tight = prev in ("(", "[", "{", "'", "`", ",", "#(") or t in (")", "]", "}")
            sep = "" if tight and rng.random() < 0.5 else rng.choice([" ", " ", "\n", "  ", "\t", " ; c\n", " "])
            if t == "." or prev == ".":
                sep = sep or " "
            out += sep
        out += t
    return out


KNOWN_STREAM_SYMS = ["12", "+5", "-7", "1/2", "1.5", "1e3", ".5", "(", ")", "[", "'", "`", ",", "#t", "#f", "#(", '"a"', "#\\a", ".", "0",
                     "123456789012345678901234567890", "-0.0", "6/4"]
KNOWN_STREAM_SRC = ["'#b12", "#x(", "'#d1/2", "'(a #e\"s\" b)", "'#x#t", "'#i.", "'#e'", "'(#b12)", "#d#\\a"]


def cases_for(d, ifaces):
    e = enc(d)
    return [[i] + e for i in ifaces]


def corpus():
    out = []
    data = [sym(s) for s in PECULIAR if reader_symbol(tuple(ord(c) for c in s))]
    data += [("ch", c) for c in (0, 7, 8, 9, 10, 13, 27, 32, 127, 120, 88, 97, 40, 41, 59, 34, 92, 39, 0x85, 0xa0, 0x3bb, 0x1f600)]
    data += [string(s) for s in ["", "a", "\\", '"', "\\x41;", "a\\", "\x00\x07\x08\t\n\x0b\x0c\r\x1b\x7f\x85", ";", "λ😀", "x41;", "\\x", "\\\\n"]]
    data += [("flo", b) for b in FLOAT_PALETTE]
    data += [("fix", 0), ("big", 0), ("big", 5), ("fix", I64_MIN), ("fix", I64_MAX), ("big", I64_MAX + 1), ("big", I64_MIN - 1),
             ("rat", 1, 2), ("rat", -1, 2), ("rat", I32_MIN, 3), ("rat", I32_MAX, 2), ("rat", 1, I32_MAX)]
    q, qq, uq, a, b = sym("quote"), sym("quasiquote"), sym("unquote"), sym("a"), sym("b")
    data += [NIL, ("bool", True), ("bool", False), ("vec", ()), ("vec", (NIL,)), lst([q, a]), lst([q]), lst([q, a, b]), ("pair", q, a),
             lst([q, lst([q, a])]), lst([qq, lst([a, lst([uq, b])])]), lst([q, q]), lst([a], b), lst([a, b], ("vec", (a,))),
             lst([a, q, b]), ("pair", a, lst([q, b])), lst([lst([]), lst([NIL])]), ("vec", (("ch", 97), sym("b"), string("c"), ("fix", 1))),
             lst([("ch", 97), ("ch", 40), ("ch", 32)]), lst([sym("+"), sym("-"), sym("...")], sym("-"))]
    for d in data:
        out += cases_for(d, (7, 8, 9))
    for s in ["(a . b)", "'(1 2 #(x \"s\\n\" #\\a))", "[a {b} . c]", "#e1.5", "#i1/3", "#x-ff", "`(a ,b)", "1/-2147483648", "-2147483648/-3",
              "( a ; c\n b )", "#\\x41", "'#xzz", "#e1e3"]:
        out += cases_for(("src", tuple(ord(c) for c in s)), (7, 8))
    return out


def generate(rng, tier):
    thorough = tier == "thorough"
    dist = {}
    cases = []

    def add(d, ifaces, kind):
        dist[kind] = dist.get(kind, 0) + 1
        cases.extend(cases_for(d, ifaces))

    # the known class, kept apart from the main stream
    for s in KNOWN_STREAM_SYMS:
        add(sym(s), (7, 8), "known_stream")
        add(lst([sym("a"), sym(s)]), (7,), "known_stream")
    for s in KNOWN_STREAM_SRC:
        add(("src", tuple(ord(c) for c in s)), (7, 8), "known_stream")

    # every scalar value: as a character (alone, and inside a vector / list), and inside a string
    if thorough:
        scalars = all_scalars()
        dist["scalars_exhaustive"] = len(scalars)
    else:
        pool = set(range(0, 0x300)) | set(SCALAR_EDGES)
        alls = all_scalars()
        while len(pool) < 20000:
            pool.add(alls[rng.randrange(len(alls))])
        scalars = sorted(pool)
        dist["scalars_sampled"] = len(scalars)
    blk = 48 if thorough else 16
    for k in range(0, len(scalars), blk):
        cs = scalars[k:k + blk]
        add(("vec", tuple(("ch", c) for c in cs)), (7, 8), "char_block")
        add(("str", tuple(cs)), (7, 8), "string_block")
        add(lst([("ch", c) for c in cs[:-1]], ("ch", cs[-1])), (7,), "char_block")
    alone = scalars if not thorough else [c for c in scalars if c < 0x3000 or c % 7 == 0]
    for c in alone:
        add(("ch", c), (7,), "char_alone")
        if c < 0x300 or c % 5 == 0:
            add(("str", (c,)), (7,), "string_alone")
            add(("ch", c), (9,), "display")
    # one-character symbols: every scalar that can be one
    for c in (scalars if not thorough else [c for c in scalars if c < 0x3000 or c % 11 == 0]):
        if reader_symbol((c,)):
            add(("sym", (c,)), (7,), "symbol_1char")
            add(("sym", (97, c, 98)), (7,), "symbol_1char")

    n = 1 if not thorough else 16
    for _ in range(4000 * n):
        add(rand_float(rng), (7, 8), "float")
    for _ in range(1500 * n):
        add(rand_int(rng), (7, 8), "integer")
    for _ in range(800 * n):
        add(rand_rational(rng), (7, 8), "rational")
    for _ in range(2500 * n):
        add(rand_symbol(rng, dist), (7, 8), "symbol")
    for _ in range(1500 * n):
        add(rand_string(rng), (7, 8, 9), "string")
    depths = {}
    for _ in range(3500 * n):
        d = rand_datum(rng, rng.choice([1, 2, 3, 4, 5, 6, 6]), dist, [rng.choice([6, 12, 25, 60])])
        dp = depth(d)
        depths[dp] = depths.get(dp, 0) + 1
        add(d, (7, 8) if rng.random() < 0.8 else (7, 8, 9), "container")
    for _ in range(600 * n):
        d = nest(rng, dist, rng.choice([3, 4, 5, 6, 6, 6]))
        dp = depth(d)
        depths[dp] = depths.get(dp, 0) + 1
        add(d, (7, 8), "spine")
    dist["depth"] = {str(k): v for k, v in sorted(depths.items())}
    for _ in range(2500 * n):
        text = render_src(rng, gen_src_tokens(rng, 3))
        add(("src", tuple(ord(c) for c in text)), (7, 8), "source_text")
    dist["exhaustive"] = thorough
    dist["cases"] = len(cases)
    return cases, dist


# ---------------------------------------------------------------------- oracle
def _input_datum(case, toks):
    """the datum of the case: decoded from the encoding, or (source texts) the one the implementation dumped"""
    d_dump, i = parse_dump(toks, 1)
    body, _ = dec(case, 1)
    if body[0] != "src" and d_dump != body:
        return None, i, "harness: the decoded datum differs from the case"
    return d_dump, i, None


def oracle(case, impl_line):
    iface = case[0]
    if impl_line == "PANIC" or impl_line.startswith(("ABORT", "TIMEOUT")):
        if case[1] == 12:
            return None          # the source text itself makes the reader panic: outside C10 (C06/C11)
        return "panic: printing, reading or evaluating a datum must not panic (%s)" % impl_line
    if impl_line == "BADCASE":
        return None if case[1] == 12 else "badcase: the harness rejected a well-formed case"
    toks = impl_line.split(" ")
    try:
        if iface == 9:
            if toks[0] != "D" or len(toks) != 2:
                return "malformed: %r" % impl_line[:80]
            d, _ = dec(case, 1)
            if not matches_show(d, False, toks[1]):
                return "display: the display form is %r, expected %r" % (toks[1][:80], esc_word(py_show(d, False))[:80])
            return None
        if toks[0] != "I":
            return "malformed: %r" % impl_line[:80]
        d, i, err = _input_datum(case, toks)
        if err:
            return err
        if iface == 7:
            w = toks[i + 1]
            if toks[i + 3] in ("ERR", "PANIC", "NOFUEL"):
                return "unreadable: the written form %r does not read back (%s)" % (w[:80], " ".join(toks[i + 3:]))
            d2, j = parse_dump(toks, i + 3)
            if not same(d, d2):
                return "reread: %r reads back as a different datum (%s)" % (w[:80], " ".join(toks[i + 3:j])[:120])
            if toks[j] != "NONE":
                return "rest: reading %r leaves text behind" % w[:80]
            if toks[j + 2] != w:
                return "unstable: writing the re-read datum gives %r, not %r" % (toks[j + 2][:80], w[:80])
            return None
        if iface == 8:
            if toks[i + 1] in ("ERR", "PANIC", "NOFUEL"):
                return "quote: evaluating (quote d) fails (%s)" % toks[i + 1]
            dq, j = parse_dump(toks, i + 1)
            if dq != d:
                return "quote: (quote d) evaluates to a different datum (%s)" % " ".join(toks[i + 1:j])[:120]
            return None
    except (ValueError, IndexError) as e:
        return "malformed: %r (%s)" % (impl_line[:80], e)
    return None


def _datum_of(case, impl_line):
    try:
        body, _ = dec(case, 1)
        if body[0] != "src":
            return body
        toks = impl_line.split(" ")
        if toks[0] == "I":
            return parse_dump(toks, 1)[0]
    except (ValueError, IndexError):
        pass
    return None


def known_class(case, impl_line, model_line):
    """prefix-path-symbol: the datum contains a symbol that the reader yields only through the number-prefix path,
    and the round trip fails"""
    d = _datum_of(case, impl_line)
    if d is None:
        return None
    if any(x[0] == "sym" and prefix_path_only(x[1]) for x in walk(d)) and oracle(case, impl_line):
        return "prefix-path-symbol"
    return None


def nontrivial(case, impl_line):
    if not impl_line.startswith(("I ", "D ")) or oracle(case, impl_line):
        return False
    d = _datum_of(case, impl_line)
    if d is None:
        return False
    if d[0] in ("nil", "bool"): return False
    if d[0] == "fix" and abs(d[1]) < 1000: return False
    if d[0] == "sym" and all(97 <= c <= 122 for c in d[1]): return False
    return True


def describe(case):
    names = {7: "write/read/write", 8: "(quote d) through Vm::eval", 9: "display"}
    try:
        d, _ = dec(case, 1)
    except (ValueError, IndexError):
        return {"iface": names.get(case[0]), "datum": "?"}
    if d[0] == "src":
        return {"iface": names.get(case[0]), "source_text": "".join(chr(c) for c in d[1])}
    return {"iface": names.get(case[0]), "datum_as_python_prints_it": py_show(d, True), "repr": repr(d)[:600]}


def _smaller(d):
    t = d[0]
    if t == "pair":
        yield d[1]; yield d[2]
        for x in _smaller(d[1]): yield ("pair", x, d[2])
        for x in _smaller(d[2]): yield ("pair", d[1], x)
    elif t == "vec":
        for x in d[1]: yield x
        for i in range(len(d[1])):
            yield ("vec", d[1][:i] + d[1][i + 1:])
        for i in range(len(d[1])):
            for x in _smaller(d[1][i]): yield ("vec", d[1][:i] + (x,) + d[1][i + 1:])
    elif t in ("str", "sym", "src"):
        for i in range(len(d[1])):
            if t != "sym" or len(d[1]) > 1:
                yield (t, d[1][:i] + d[1][i + 1:])
    elif t in ("fix", "big") and d[1] not in (0, 1):
        yield (t, d[1] // 2); yield (t, 0)
    elif t == "flo" and d[1] & 0xffffffff:
        yield (t, d[1] & ~0xffffffff)


def reductions(case):
    try:
        d, _ = dec(case, 1)
    except (ValueError, IndexError):
        return
    n = 0
    for x in _smaller(d):
        yield [case[0]] + enc(x)
        n += 1
        if n >= 64:
            return


def neighbours(case, rng):
    try:
        d, _ = dec(case, 1)
    except (ValueError, IndexError):
        return []
    out = []
    subs = [x for x in walk(d)][:40]
    for x in [d] + subs:
        for i in (7, 8, 9):
            if not (i == 9 and x[0] == "src"):
                out.append([i] + enc(x))
        if x[0] == "ch":
            for c in (x[1] - 1, x[1] + 1):
                if 0 <= c < 0x110000 and not 0xD800 <= c <= 0xDFFF:
                    out.append([7, 3, c]); out.append([7, 8, 1, c])
        if x[0] == "flo":
            for o in (-1, 1):
                b = (x[1] + o) % 2**64
                if ((b >> 52) & 0x7ff) != 0x7ff:
                    out.append([7, 7, b])
    return out
