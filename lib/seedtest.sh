#!/bin/bash
# seedtest.sh <PROPERTY> <scratch-worktree> <name> [extra check ids...]
# 1. re-confirm the seeded change in the scratch worktree (suite passes with it, the
#    demonstration fails with it and passes without it);
# 2. apply it to /repo, run the property's quick check (and any extra checks), undo it;
# 3. store patch, demonstration, notes and meta.json under /verif/seeded/<name>/.
set -u
P=$1; D=$2; NAME=$3; shift 3; EXTRA="$@"
OUT=/verif/seeded/$NAME; mkdir -p $OUT
cp $D/SEED/patch.diff $OUT/patch.diff
cp $D/SEED/notes.md $OUT/notes.md 2>/dev/null
DEMO=$(ls $D/SEED/*.rs 2>/dev/null | head -1); [ -n "$DEMO" ] && cp $DEMO $OUT/
cd $D
# state: patch applied + demo present
mkdir -p /tmp/seedlogs
mv marwood/tests/seeded_demo.rs /tmp/seedlogs/$NAME.demo.rs 2>/dev/null
SUITE_WITH=$(cargo test --workspace --no-fail-fast --offline 2>&1 | grep -E "^test result" | awk '{p+=$4; f+=$6} END {print p" passed "f" failed"}')
cp /tmp/seedlogs/$NAME.demo.rs marwood/tests/seeded_demo.rs 2>/dev/null
DEMO_WITH=$(cargo test --offline -p marwood --test seeded_demo 2>&1 | grep -E "^test result" | tail -1)
git apply -R SEED/patch.diff
DEMO_WITHOUT=$(cargo test --offline -p marwood --test seeded_demo 2>&1 | grep -E "^test result" | tail -1)
git apply SEED/patch.diff
cd /verif
RES=""
git -C /repo apply $OUT/patch.diff || { echo "PATCH DOES NOT APPLY to /repo"; exit 3; }
for c in $P $EXTRA; do
  ./check $c > /tmp/seedlogs/$NAME.$c.log 2>&1; rc=$?
  V=$(grep -c "^VIOLATION" /tmp/seedlogs/$NAME.$c.log)
  NF=$(grep -c "no-failing-input-found" /tmp/seedlogs/$NAME.$c.log)
  RP=$(grep "^VIOLATION" /tmp/seedlogs/$NAME.$c.log | head -1 | sed 's/.*replay=\([^ ]*\).*/\1/')
  [ -n "$RP" ] && [ -f "$RP" ] && cp "$RP" $OUT/replay-$c.json
  RES="$RES{\"check\":\"$c\",\"exit\":$rc,\"violations\":$V,\"no_failing_input_found\":$NF},"
done
git -C /repo checkout -- .
git -C /repo status --short | grep -v "^??" | head -3
python3 - "$P" "$NAME" "$SUITE_WITH" "$DEMO_WITH" "$DEMO_WITHOUT" "[${RES%,}]" <<'PY'
import json, sys, os
p, name, sw, dw, dwo, res = sys.argv[1:7]
out = "/verif/seeded/%s" % name
notes = open(out + "/notes.md").read() if os.path.exists(out + "/notes.md") else ""
meta = {"property": p, "name": name,
        "confirmed": {"suite_with_patch": sw, "demo_with_patch": dw, "demo_without_patch": dwo},
        "checks_run": json.loads(res),
        "what_i_ran": "lib/seedtest.sh: suite + demo in the scratch worktree with and without the patch; patch applied to /repo, ./check <id> (quick), patch undone",
        "needs_to_manifest": notes[:1500]}
json.dump(meta, open(out + "/meta.json", "w"), indent=1)
print(json.dumps(meta["confirmed"]), meta["checks_run"])
PY
