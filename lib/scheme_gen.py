"""scheme_gen.py — session generators for C01 (evaluation), C02 (lexical scoping) and
C05 (first-class continuations).  A session is a list of form texts; a case of wire
interface 70 is `70 nforms (len cp...)*`.  All randomness comes from the `rng` argument.

Every generator keeps to the vocabulary of builtins the Coq model currently implements
(MODEL_BUILTINS, the temporary set of coq/Model/Builtins.v plus the prelude's Scheme
procedures built from it) unless asked for the *wide* vocabulary, whose sessions are
compared implementation-vs-oracle only.
"""
import itertools
import scheme_ref as R

# ------------------------------------------------------------------ vocabulary
# builtins modelled by coq/Model/Builtins.v (tmp_builtin) and Vm.v
MODEL_NATIVE = {"car", "cdr", "cons", "set-car!", "set-cdr!", "null?", "pair?", "vector?", "procedure?", "symbol?",
                "not", "eq?", "eqv?", "+", "-", "*", "=", "<", ">", "<=", ">=", "apply", "call/cc",
                "call-with-current-continuation", "error", "eval", "display", "write"}
# prelude procedures written in Scheme over MODEL_NATIVE (so the model runs them)
MODEL_PRELUDE = {"list", "length", "memq", "memv", "assq", "assv", "map", "for-each", "caar", "cadr", "cdar", "cddr",
                 "force", "newline", "add1", "sub1", "atom?", "any?", "map1"}
MODEL_BUILTINS = MODEL_NATIVE | MODEL_PRELUDE
# procedures of the reference interpreter outside the model's vocabulary ("wide")
WIDE_ONLY = {"append", "reverse", "member", "assoc", "list-tail", "list-ref", "vector", "vector-ref", "vector-set!",
             "vector-length", "make-vector", "equal?", "list?", "string?", "char?", "boolean?", "number?", "integer?"}

# names the prelude's syntax-rules patterns and templates use (marwood/prelude.scm).  The
# main streams never use them as variables; the hygiene stream uses exactly these.
PRELUDE_PATTERN_VARS = ["name", "val", "body1", "body2", "var1", "init1", "tag", "test", "test1", "test2", "result1",
                        "result2", "exp", "name1", "val1", "name2", "val2", "temp", "result", "clause1", "clause2",
                        "key", "clauses", "atom-key", "atoms", "clause", "expression"]
PRELUDE_TEMPLATE_LITERALS = ["var1", "temp", "atom-key"]      # inserted by a template, not bound by its pattern
PRELUDE_TEMPLATE_GLOBALS = {"memv": "case", "not": "unless", "make-promise": "delay"}
PRELUDE_GLOBALS = ["void", "atom?", "caar", "cadr", "cdar", "cddr", "list", "length", "memq", "memv", "member", "assq",
                   "assv", "assoc", "substring", "make-promise", "force", "promise-done?", "promise-value",
                   "promise-update!", "add1", "sub1", "newline", "any?", "map1", "map", "for-each", "promise*",
                   "<undefined>"]

LOCALS = ["a", "b", "c", "d", "e", "m", "n", "p", "q", "r", "s", "t", "u", "v", "w", "x", "y", "z", "i", "j", "acc",
          "lst", "cnt", "tmp1", "arg", "xs", "ys", "fn", "h"]
GLOBAL_VARS = ["g0", "g1", "g2", "g3", "total", "state", "items", "flag"]
GLOBAL_PROCS = ["f0", "f1", "f2", "f3", "helper", "twice", "mk", "walk"]
FORBIDDEN_IDENTS = set(R.KEYWORDS) | set(PRELUDE_PATTERN_VARS) | set(PRELUDE_GLOBALS) | MODEL_BUILTINS | WIDE_ONLY
assert not (set(LOCALS + GLOBAL_VARS + GLOBAL_PROCS) & FORBIDDEN_IDENTS)

SYMBOLS = ["a", "b", "c", "foo", "bar", "k1", "zed"]
STRINGS = ['"s"', '"abc"', '"hi"', '""', '"x-y"']
CHARS = ["#\\a", "#\\z", "#\\0", "#\\space", "#\\A"]


def encode(forms, iface=70):
    c = [iface, len(forms)]
    for f in forms:
        c.append(len(f))
        c += [ord(ch) for ch in f]
    return c


def decode(case):
    n = case[1]
    i = 2
    forms = []
    for _ in range(n):
        ln = case[i]
        forms.append("".join(chr(c) for c in case[i + 1:i + 1 + ln]))
        i += 1 + ln
    return forms


class Dist(dict):
    def hit(self, key, n=1):
        self[key] = self.get(key, 0) + n


def source_stats(forms, dist):
    """measured distribution of a session's source text: special forms, sizes, depth"""
    for f in forms:
        try:
            data = R.read_all(f)
        except R.ReadError:
            dist.hit("unreadable_form")
            continue
        for d in data:
            nodes, depth = _walk_stats(d, dist)
            dist.hit("nodes_%s" % _bucket(nodes))
            dist.hit("depth_%d" % min(depth, 12))
    dist.hit("forms_%d" % len(forms))


def _bucket(n):
    for b in (5, 10, 20, 40, 80, 160):
        if n <= b:
            return "le%d" % b
    return "gt160"


def _walk_stats(d, dist):
    nodes, depth = 0, 0
    stack = [(d, 1)]
    while stack:
        x, dep = stack.pop()
        nodes += 1
        depth = max(depth, dep)
        if type(x) is R.Pair:
            h = x.car
            if type(h) is R.Sym and (h in R.SPECIAL or h.name in ("call/cc", "apply", "eval", "force", "map", "for-each",
                                                                    "error", "unquote", "unquote-splicing", "display", "write")):
                dist.hit("form:" + h.name)
                if h.name == "let" and type(x.cdr) is R.Pair and type(x.cdr.car) is R.Sym:
                    dist.hit("form:named-let")
                if h.name == "lambda" and type(x.cdr) is R.Pair:
                    f = x.cdr.car
                    if type(f) is R.Sym:
                        dist.hit("lambda:variadic")
                    else:
                        while type(f) is R.Pair:
                            f = f.cdr
                        dist.hit("lambda:dotted" if f is not R.NIL else "lambda:fixed")
            elif type(h) is not R.Sym or h.name not in ("quote",):
                dist.hit("application")
            while type(x) is R.Pair:
                stack.append((x.car, dep + 1))
                x = x.cdr
            if x is not R.NIL:
                stack.append((x, dep + 1))
        elif type(x) is R.Vector:
            for e in x.items:
                stack.append((e, dep + 1))
    return nodes, depth


# =============================================================================== C01
class G01(object):
    """typed random generator of well-scoped sessions over the forms of the C01 statement"""

    def __init__(self, rng, dist, wide=False):
        self.rng, self.dist, self.wide = rng, dist, wide
        self.gvars = {}       # global variable -> type ("int" | "list" | "sym" | "any")
        self.gprocs = {}      # global procedure -> (nreq, variadic, return type)
        self.budget = 0
        self.rank = None      # inside a global procedure body: only lower-ranked procedures are callable
        self.inject = None    # pending error kind to inject
        self.injected = None
        self.fresh = 0

    # ----------------------------------------------------------------- utilities
    def pick(self, xs):
        return xs[self.rng.randrange(len(xs))]

    def chance(self, p):
        return self.rng.random() < p

    def newlocal(self, scope):
        used = set(n for n, _ in scope)
        for _ in range(8):
            n = self.pick(LOCALS)
            if n not in used or self.chance(0.3):      # shadowing is welcome
                return n
        return self.pick(LOCALS)

    def vars_of(self, scope, ty):
        seen, out = set(), []
        for n, t in reversed(scope):
            if n in seen:
                continue
            seen.add(n)
            if t == ty:
                out.append(n)
        for n, t in self.gvars.items():
            if n not in seen and t == ty:
                out.append(n)
        return out

    def spend(self, n=1):
        self.budget -= n
        return self.budget > 0

    # ------------------------------------------------------------ error injection
    def maybe_error(self, scope):
        if self.inject is None or not self.chance(0.15):
            return None
        kind, self.inject = self.inject, None
        self.injected = kind
        self.dist.hit("inject:" + kind)
        if kind == "unbound":
            return self.pick(["undefined-var", "(undefined-fn 1 2)", "(+ 1 nowhere)"])
        if kind == "arity":
            procs = [n for n, (k, v, _) in self.gprocs.items() if not v and k > 0]
            if procs and self.chance(0.6):
                return "(%s)" % self.pick(procs)
            return self.pick(["((lambda (x) x))", "((lambda (x y) x) 1)", "((lambda () 1) 2)", "(car)", "(cons 1)",
                              "((lambda (x . y) x))", "(apply (lambda (x) x) '(1 2))"])
        if kind == "type":
            return self.pick(["(car 7)", "(+ 'a 1)", "(cdr '())", "(* 2 \"s\")", "(< 1 'b)", "(set-car! 5 1)",
                              "(apply + 1 2)", "(- #t)", "(car (cdr (list 1)))"])
        if kind == "nonproc":
            return self.pick(["(7 1)", "('a)", "((car (list 1 2)) 3)", "(\"s\" 1)", "((if #f #f))"])
        if kind == "error":
            irritants = " ".join(self.pick(["1", "'a", "\"s\"", "#\\c", "'(1 2)", "(list 1 'b)", "(+ 1 2)", "#t"])
                                 for _ in range(self.rng.randint(0, 3)))
            return "(error %s %s)" % (self.pick(['"boom"', '"bad thing"'.replace(" ", "-"), "'oops"]), irritants)
        return None

    # -------------------------------------------------------------------- types
    def gen(self, ty, d, scope):
        e = self.maybe_error(scope)
        if e is not None:
            return e
        if ty == "int":
            return self.gen_int(d, scope)
        if ty == "bool":
            return self.gen_bool(d, scope)
        if ty == "list":
            return self.gen_list(d, scope)
        if ty == "sym":
            return self.gen_sym(d, scope)
        return self.gen_any(d, scope)

    def lit_int(self):
        return str(self.pick([0, 1, 2, 3, 4, 5, 7, 10, -1, -3, 12, 100]))

    def leaf(self, ty, scope):
        vs = self.vars_of(scope, ty)
        if vs and self.chance(0.6):
            return self.pick(vs)
        if ty == "int":
            return self.lit_int()
        if ty == "bool":
            return self.pick(["#t", "#f"])
        if ty == "list":
            return self.pick(["'()", "'(1 2 3)", "'(4 5)", "(list 1 2)", "'(7)"])
        if ty == "sym":
            return "'" + self.pick(SYMBOLS)
        return self.pick(["'" + self.pick(SYMBOLS), self.lit_int(), self.pick(STRINGS), self.pick(CHARS), "'(a 1 \"s\")",
                          "#t", "'#(1 a)", "'(1 . 2)", "'()", "'((a . 1) (b . 2))"])

    def binder(self, ty, d, scope):
        """a binding construct whose body has type ty"""
        r = self.rng.random()
        n = self.rng.randint(1, 3)
        if r < 0.3:
            names, inits = [], []
            for _ in range(n):
                t = self.pick(["int", "int", "list", "sym"])
                nm = self.newlocal(scope)
                if nm in [x for x, _ in names]:
                    continue
                names.append((nm, t))
                inits.append(self.gen(t, d - 1, scope))
            body = self.body(ty, d - 1, scope + names)
            return "(let (%s) %s)" % (" ".join("(%s %s)" % (nm, i) for (nm, _), i in zip(names, inits)), body)
        if r < 0.5:
            sc = list(scope)
            bs = []
            for _ in range(n):
                t = self.pick(["int", "int", "list"])
                nm = self.newlocal(sc)
                bs.append("(%s %s)" % (nm, self.gen(t, d - 1, sc)))
                sc = sc + [(nm, t)]
            return "(let* (%s) %s)" % (" ".join(bs), self.body(ty, d - 1, sc))
        if r < 0.65:
            # letrec of mutually recursive procedures over a bounded counter
            ev, od = self.pick([("ev", "od"), ("ping", "pong")])
            use = "(%s %s)" % (ev, self.pick(["4", "5", "3", "0"]))
            inner = self.gen(ty, d - 1, scope + [("parity", "bool")]) if self.chance(0.5) else self.leaf(ty, scope)
            return ("(letrec ((%s (lambda (k) (if (= k 0) #t (%s (- k 1))))) (%s (lambda (k) (if (= k 0) #f (%s (- k 1)))))) "
                    "(let ((parity %s)) %s))" % (ev, od, od, ev, use, inner))
        if r < 0.85:
            # named let: a bounded loop accumulating a value of the requested type
            i, acc = self.pick([("i", "acc"), ("k", "r"), ("n", "s")])
            lim = self.rng.randint(0, 4)
            if ty == "int":
                step = self.gen("int", d - 2, scope + [(i, "int"), (acc, "int")])
                return "(let loop ((%s 0) (%s %s)) (if (< %s %d) (loop (+ %s 1) (+ %s %s)) %s))" % (
                    i, acc, self.leaf("int", scope), i, lim, i, acc, step, acc)
            if ty == "list":
                step = self.gen("int", d - 2, scope + [(i, "int"), (acc, "list")])
                return "(let loop ((%s 0) (%s '())) (if (< %s %d) (loop (+ %s 1) (cons %s %s)) %s))" % (
                    i, acc, i, lim, i, step, acc, acc)
            res = self.gen(ty, d - 2, scope + [(i, "int")])
            return "(let loop ((%s 0)) (if (< %s %d) (loop (+ %s 1)) %s))" % (i, i, lim, i, res)
        # immediate application of a lambda expression (fixed, dotted or variadic formals)
        k = self.rng.random()
        if k < 0.5:
            names = []
            for _ in range(n):
                nm = self.newlocal(scope)
                if nm not in [x for x, _ in names]:
                    names.append((nm, self.pick(["int", "int", "list"])))
            args = [self.gen(t, d - 1, scope) for _, t in names]
            return "((lambda (%s) %s) %s)" % (" ".join(nm for nm, _ in names), self.body(ty, d - 1, scope + names),
                                              " ".join(args))
        if k < 0.8:
            nm, rest = self.pick([("a", "more"), ("x", "rest"), ("p", "others")])
            args = [self.gen("int", d - 1, scope) for _ in range(self.rng.randint(1, 4))]
            return "((lambda (%s . %s) %s) %s)" % (nm, rest, self.body(ty, d - 1, scope + [(nm, "int"), (rest, "list")]),
                                                   " ".join(args))
        rest = self.pick(["args", "all", "xs"])
        args = [self.gen("int", d - 1, scope) for _ in range(self.rng.randint(0, 3))]
        return "((lambda %s %s) %s)" % (rest, self.body(ty, d - 1, scope + [(rest, "list")]), " ".join(args))

    def body(self, ty, d, scope):
        """a <body>: optional internal definitions, effects, then the result expression"""
        parts = []
        sc = list(scope)
        if self.chance(0.25) and d > 0:
            for _ in range(self.rng.randint(1, 2)):
                nm = self.newlocal(sc)
                if self.chance(0.5):
                    t = self.pick(["int", "list"])
                    parts.append("(define %s %s)" % (nm, self.gen(t, d - 1, sc)))
                    sc = sc + [(nm, t)]
                else:
                    prm = self.pick(["k", "o", "w"])
                    parts.append("(define (%s %s) %s)" % (nm, prm, self.gen("int", d - 1, sc + [(prm, "int")])))
                    sc = sc + [(nm, ("proc", 1, False, "int"))]
        for _ in range(self.rng.randint(0, 2) if d > 0 and self.chance(0.4) else 0):
            parts.append(self.effect(d - 1, sc))
        parts.append(self.gen(ty, d, sc))
        return " ".join(parts)

    def effect(self, d, scope):
        if not self.spend():
            return "(display 'e)"
        r = self.rng.random()
        if r < 0.3:
            return "(%s %s)" % (self.pick(["display", "display", "write"]), self.gen(self.pick(["int", "sym", "any", "list"]), d, scope))
        if r < 0.55:
            for ty in self.rng.sample(["int", "list", "sym"], 3):
                vs = self.vars_of(scope, ty)
                if vs:
                    return "(set! %s %s)" % (self.pick(vs), self.gen(ty, d, scope))
            return "(display %s)" % self.lit_int()
        if r < 0.65:
            return "(%s %s %s)" % (self.pick(["when", "unless"]), self.gen("bool", d, scope),
                                   " ".join(self.effect(d - 1, scope) for _ in range(self.rng.randint(1, 2))))
        if r < 0.72:
            return "(if %s %s)" % (self.gen("bool", d, scope), self.effect(d - 1, scope))
        if r < 0.82:
            v = self.pick(["el", "it"])
            return "(for-each (lambda (%s) (display %s)) %s)" % (v, v, self.gen("list", d, scope))
        if r < 0.9:
            nm = self.pick(["cell", "box"])
            return "(let ((%s (cons %s %s))) (set-car! %s %s) (set-cdr! %s '()) (display %s))" % (
                nm, self.lit_int(), self.lit_int(), nm, self.gen("int", d, scope), nm, nm)
        return "(begin %s %s)" % (self.effect(d - 1, scope), self.effect(d - 1, scope))

    def call_global(self, ret, d, scope):
        cands = [(n, sig) for n, sig in self.gprocs.items() if sig[2] == ret and
                 (self.rank is None or GLOBAL_PROCS.index(n) < self.rank)]
        if not cands:
            return None
        n, (k, variadic, _) = self.pick(cands)
        nargs = k + (self.rng.randint(0, 2) if variadic else 0)
        args = [self.gen("int", d - 1, scope) for _ in range(nargs)]
        r = self.rng.random()
        if r < 0.2 and nargs > 0:
            self.dist.hit("apply-global")
            return "(apply %s %s (list %s))" % (n, " ".join(args[:-1]), args[-1]) if nargs > 1 else "(apply %s (list %s))" % (n, args[0])
        return "(%s%s)" % (n, "".join(" " + a for a in args))

    def local_proc_call(self, ret, d, scope):
        cands = []
        seen = set()
        for n, t in reversed(scope):
            if n in seen:
                continue
            seen.add(n)
            if type(t) is tuple and t[3] == ret:
                cands.append((n, t))
        if not cands:
            return None
        n, (_, k, variadic, _) = self.pick(cands)
        args = [self.gen("int", d - 1, scope) for _ in range(k)]
        return "(%s%s)" % (n, "".join(" " + a for a in args))

    def gen_int(self, d, scope):
        if d <= 0 or not self.spend():
            return self.leaf("int", scope)
        r = self.rng.random()
        if r < 0.12:
            return self.leaf("int", scope)
        if r < 0.27:
            op = self.pick(["+", "+", "-", "*"])
            n = self.pick([2, 2, 2, 3, 1 if op != "*" else 2])
            return "(%s %s)" % (op, " ".join(self.gen("int", d - 1, scope) for _ in range(n)))
        if r < 0.35:
            return "(if %s %s %s)" % (self.gen("bool", d - 1, scope), self.gen("int", d - 1, scope), self.gen("int", d - 1, scope))
        if r < 0.47:
            return self.binder("int", d, scope)
        if r < 0.52:
            return "(begin %s %s)" % (" ".join(self.effect(d - 1, scope) for _ in range(self.rng.randint(1, 2))),
                                      self.gen("int", d - 1, scope))
        if r < 0.60:
            return self.gen_cond("int", d, scope)
        if r < 0.66:
            return self.gen_case("int", d, scope)
        if r < 0.70:
            k = self.rng.random()
            if k < 0.5:
                return "(or %s %s)" % (self.pick(["#f", "(and #f 1)", self.gen("bool", d - 1, scope) + " #f"]), self.gen("int", d - 1, scope))
            return "(and %s %s)" % (" ".join(self.gen("int", d - 1, scope) for _ in range(self.rng.randint(0, 2))), self.gen("int", d - 1, scope))
        if r < 0.78:
            c = self.call_global("int", d, scope) or self.local_proc_call("int", d, scope)
            if c:
                return c
            return "((lambda (w) (* w w)) %s)" % self.gen("int", d - 1, scope)
        if r < 0.82:
            k = self.rng.random()
            if k < 0.4:
                return "(apply + %s)" % self.gen("list", d - 1, scope)
            if k < 0.7:
                return "(apply (lambda (o . more) (+ o (length more))) %s %s)" % (self.gen("int", d - 1, scope), self.gen("list", d - 1, scope))
            return "(apply (lambda all (length all)) %s %s '(%s))" % (self.lit_int(), self.lit_int(), self.lit_int())
        if r < 0.86:
            if self.chance(0.5):
                return "(force (delay %s))" % self.gen("int", d - 1, scope)
            return "(let ((pr (delay (begin (display 'once) %s)))) (+ (force pr) (force pr)))" % self.gen("int", d - 1, scope)
        if r < 0.90:
            closed = self.gen("int", min(d - 1, 2), [])
            if self.chance(0.5):
                return "(eval '%s)" % closed
            return "(eval (list '%s %s %s))" % (self.pick(["+", "*", "-"]), self.gen("int", d - 1, scope), self.lit_int())
        if r < 0.95:
            k = self.rng.random()
            if k < 0.4:
                return "(length %s)" % self.gen("list", d - 1, scope)
            if k < 0.7:
                return "(car (cons %s %s))" % (self.gen("int", d - 1, scope), self.gen("list", d - 1, scope))
            return "(let ((cn 0)) (let ((inc (lambda () (set! cn (+ cn %s)) cn))) (inc) (inc)))" % self.gen("int", d - 1, scope)
        # higher-order
        return "((lambda (g o) (g (g o))) (lambda (w) %s) %s)" % (self.gen("int", d - 1, scope + [("w", "int")]), self.gen("int", d - 1, scope))

    def gen_cond(self, ty, d, scope):
        clauses = []
        for _ in range(self.rng.randint(1, 3)):
            k = self.rng.random()
            if k < 0.55:
                clauses.append("(%s %s)" % (self.gen("bool", d - 1, scope), self.body_seq(ty, d - 1, scope)))
            elif k < 0.8 and ty == "int":
                tst = self.pick(["(and %s %s)" % (self.gen("bool", d - 1, scope), self.gen("int", d - 1, scope)),
                                 "(assv %s '((1 . 10) (2 . 20) (3 . 30)))" % self.gen("int", d - 1, scope),
                                 "(memv %s '(1 2 3))" % self.gen("int", d - 1, scope)])
                if tst.startswith("(assv"):
                    clauses.append("(%s => cdr)" % tst)
                elif tst.startswith("(memv"):
                    clauses.append("(%s => length)" % tst)
                else:
                    clauses.append("(%s => (lambda (hit) (+ hit 1)))" % tst)
            elif k < 0.9 and ty == "int" and self.gprocs:
                # variadic procedures reached through apply inside cond arms
                vs = [n for n, (_, v, rt) in self.gprocs.items() if v and rt == "int" and
                      (self.rank is None or GLOBAL_PROCS.index(n) < self.rank)]
                if vs:
                    nm = self.pick(vs)
                    k0 = self.gprocs[nm][0]
                    args = [self.gen("int", d - 1, scope) for _ in range(k0)]
                    self.dist.hit("apply-variadic-in-cond")
                    clauses.append("(%s (apply %s %s (list %s)))" % (self.gen("bool", d - 1, scope), nm, " ".join(args),
                                                                     " ".join(self.lit_int() for _ in range(self.rng.randint(0, 2)))))
                else:
                    clauses.append("(%s %s)" % (self.gen("bool", d - 1, scope), self.gen(ty, d - 1, scope)))
            else:
                if ty in ("int", "sym", "list"):
                    clauses.append("((or #f %s))" % self.gen(ty, d - 1, scope) if self.chance(0.5) else "(#f)")
                else:
                    clauses.append("(#f 0)")
        clauses.append("(else %s)" % self.body_seq(ty, d - 1, scope))
        return "(cond %s)" % " ".join(clauses)

    def body_seq(self, ty, d, scope):
        if self.chance(0.25):
            return "%s %s" % (self.effect(d - 1, scope), self.gen(ty, d, scope))
        return self.gen(ty, d, scope)

    def gen_case(self, ty, d, scope):
        key = self.gen("int", d - 1, scope) if self.chance(0.7) else self.gen("sym", d - 1, scope)
        clauses = []
        for _ in range(self.rng.randint(1, 3)):
            data = " ".join(self.pick(["0", "1", "2", "3", "5", "a", "b", "foo", "10", "-1", "#t"]) for _ in range(self.rng.randint(1, 3)))
            if self.chance(0.2) and ty == "any":
                clauses.append("((%s) => (lambda (hit) (list hit)))" % data)
            else:
                clauses.append("((%s) %s)" % (data, self.body_seq(ty, d - 1, scope)))
        if self.chance(0.8) or ty != "any":
            if self.chance(0.15) and ty == "any":
                clauses.append("(else => (lambda (hit) (cons 'other hit)))")
            else:
                clauses.append("(else %s)" % self.body_seq(ty, d - 1, scope))
        return "(case %s %s)" % (key, " ".join(clauses))

    def gen_bool(self, d, scope):
        if d <= 0 or not self.spend():
            return self.leaf("bool", scope)
        r = self.rng.random()
        if r < 0.1:
            return self.leaf("bool", scope)
        if r < 0.45:
            op = self.pick(["<", ">", "=", "<=", ">="])
            n = 3 if self.chance(0.15) else 2
            return "(%s %s)" % (op, " ".join(self.gen("int", d - 1, scope) for _ in range(n)))
        if r < 0.55:
            return "(%s %s)" % (self.pick(["null?", "pair?"]), self.gen("list", d - 1, scope))
        if r < 0.62:
            return "(%s %s)" % (self.pick(["pair?", "symbol?", "procedure?", "vector?", "null?"]), self.gen("any", d - 1, scope))
        if r < 0.70:
            return "(not %s)" % self.gen("bool", d - 1, scope)
        if r < 0.78:
            return "(%s %s %s)" % (self.pick(["eq?", "eqv?"]), self.gen("sym", d - 1, scope), self.gen("sym", d - 1, scope))
        if r < 0.83:
            return "(eqv? %s %s)" % (self.gen("int", d - 1, scope), self.gen("int", d - 1, scope))
        if r < 0.93:
            return "(%s %s)" % (self.pick(["and", "or"]), " ".join(self.gen("bool", d - 1, scope) for _ in range(self.rng.randint(0, 3))))
        return "(if %s %s %s)" % (self.gen("bool", d - 1, scope), self.gen("bool", d - 1, scope), self.gen("bool", d - 1, scope))

    def gen_sym(self, d, scope):
        if d <= 0 or not self.spend():
            return self.leaf("sym", scope)
        r = self.rng.random()
        if r < 0.5:
            return self.leaf("sym", scope)
        if r < 0.65:
            return "(if %s %s %s)" % (self.gen("bool", d - 1, scope), self.gen("sym", d - 1, scope), self.gen("sym", d - 1, scope))
        if r < 0.75:
            return "(car '(%s %s))" % (self.pick(SYMBOLS), self.pick(SYMBOLS))
        if r < 0.85:
            return self.gen_case("sym", d, scope)
        if r < 0.92:
            return self.gen_cond("sym", d, scope)
        return self.binder("sym", d, scope)

    def gen_list(self, d, scope):
        if d <= 0 or not self.spend():
            return self.leaf("list", scope)
        r = self.rng.random()
        if r < 0.12:
            return self.leaf("list", scope)
        if r < 0.27:
            return "(list %s)" % " ".join(self.gen("int", d - 1, scope) for _ in range(self.rng.randint(0, 3)))
        if r < 0.37:
            return "(cons %s %s)" % (self.gen("int", d - 1, scope), self.gen("list", d - 1, scope))
        if r < 0.50:
            v = self.pick(["el", "o", "it"])
            k = self.rng.random()
            if k < 0.6:
                return "(map (lambda (%s) %s) %s)" % (v, self.gen("int", d - 1, scope + [(v, "int")]), self.gen("list", d - 1, scope))
            if k < 0.8:
                return "(map + %s %s)" % (self.gen("list", d - 1, scope), self.gen("list", d - 1, scope))
            return "(map (lambda (%s o2) (* %s o2)) %s %s)" % (v, v, self.gen("list", d - 1, scope), self.gen("list", d - 1, scope))
        if r < 0.64:
            return self.gen_qq(d, scope)
        if r < 0.72:
            return self.binder("list", d, scope)
        if r < 0.78:
            return "(if %s %s %s)" % (self.gen("bool", d - 1, scope), self.gen("list", d - 1, scope), self.gen("list", d - 1, scope))
        if r < 0.84:
            return "((lambda args args) %s)" % " ".join(self.gen("int", d - 1, scope) for _ in range(self.rng.randint(0, 3)))
        if r < 0.88:
            return "(cdr (cons %s %s))" % (self.gen("int", d - 1, scope), self.gen("list", d - 1, scope))
        if r < 0.92:
            c = self.call_global("list", d, scope)
            if c:
                return c
            return "(apply list %s)" % self.gen("list", d - 1, scope)
        if r < 0.96 and self.wide:
            k = self.rng.random()
            self.dist.hit("wide-builtin")
            if k < 0.4:
                return "(append %s %s)" % (self.gen("list", d - 1, scope), self.gen("list", d - 1, scope))
            if k < 0.7:
                return "(reverse %s)" % self.gen("list", d - 1, scope)
            return "(list-tail (cons 1 (cons 2 %s)) %s)" % (self.gen("list", d - 1, scope), self.pick(["0", "1", "2"]))
        return self.gen_cond("list", d, scope)

    def gen_qq(self, d, scope, level=1):
        """a quasiquote template producing a list: unquotes, nested levels, vectors"""
        def tmpl(dd, lvl, in_list=True):
            k = self.rng.random()
            if dd <= 0 or k < 0.25:
                return self.pick(["1", "2", "a", "b", "\"s\"", "#\\c", "()", "x"])
            if k < 0.55:
                if lvl == 1:
                    return ",%s" % self.gen(self.pick(["int", "int", "sym", "list"]), d - 2, scope)
                return ",%s" % tmpl(dd - 1, lvl - 1)
            if k < 0.80:
                return "(%s)" % " ".join(tmpl(dd - 1, lvl) for _ in range(self.rng.randint(1, 3)))
            if k < 0.86:
                self.dist.hit("qq:nested")
                return "`%s" % tmpl(dd - 1, lvl + 1)
            if k < 0.93:
                self.dist.hit("qq:vector")
                return "#(%s)" % " ".join(tmpl(dd - 1, lvl) for _ in range(self.rng.randint(0, 2)))
            return "(%s . %s)" % (tmpl(dd - 1, lvl), self.pick(["z", "2", "()"]))
        items = [tmpl(2, level) for _ in range(self.rng.randint(1, 4))]
        return "`(%s)" % " ".join(items)

    def gen_any(self, d, scope):
        if d <= 0 or not self.spend():
            return self.leaf("any", scope)
        r = self.rng.random()
        if r < 0.2:
            return self.leaf("any", scope)
        if r < 0.45:
            return self.gen(self.pick(["int", "list", "sym", "bool"]), d, scope)
        if r < 0.55:
            return "(cons %s %s)" % (self.gen("any", d - 1, scope), self.gen("any", d - 1, scope))
        if r < 0.63:
            return "(list %s)" % " ".join(self.gen("any", d - 1, scope) for _ in range(self.rng.randint(0, 3)))
        if r < 0.70:
            return self.gen_case("any", d, scope)
        if r < 0.76:
            return self.binder("any", d, scope)
        if r < 0.82:
            # a procedure value (printed as #<procedure...)
            return self.pick(["car", "(lambda (o) o)", "(lambda args args)", "(let ((cn 0)) (lambda () (set! cn (+ cn 1)) cn))"])
        if r < 0.88:
            return "`#(%s ,%s)" % (self.lit_int(), self.gen("int", d - 1, scope))
        if r < 0.94 and self.wide:
            self.dist.hit("wide-builtin")
            return self.pick(["(vector %s %s)" % (self.gen("int", d - 1, scope), self.gen("any", d - 1, scope)),
                              "(vector-ref (vector 1 2 3) %s)" % self.pick(["0", "1", "2", "3"]),
                              "(let ((vv (make-vector 2 0))) (vector-set! vv 1 %s) vv)" % self.gen("int", d - 1, scope),
                              "(equal? %s %s)" % (self.gen("list", d - 1, scope), self.gen("list", d - 1, scope)),
                              "(member (list 1) '((0) (1) (2)))", "(assoc \"b\" '((\"a\" . 1) (\"b\" . 2)))",
                              "(vector-length '#(1 2 3))", "(list-ref '(a b c) %s)" % self.pick(["0", "2", "3"])])
        return "(delay %s)" % self.gen("int", d - 1, scope) if self.chance(0.3) else "(force (delay %s))" % self.gen("any", d - 1, scope)

    # ------------------------------------------------------------ top-level forms
    def define_proc(self, d):
        redefine = self.gprocs and self.chance(0.35)
        name = self.pick(list(self.gprocs)) if redefine else self.pick(GLOBAL_PROCS)
        if redefine:
            self.dist.hit("redefine-proc")
        k = self.rng.randint(0, 3)
        params = []
        for _ in range(k):
            nm = self.pick(LOCALS[:12])
            if nm not in params:
                params.append(nm)
        variadic = self.chance(0.3)
        ret = self.pick(["int", "int", "int", "list"]) if not redefine else self.gprocs[name][2]
        scope = [(p, "int") for p in params]
        formals = " ".join(params)
        if variadic:
            rest = self.pick(["rest", "more", "opt"])
            scope.append((rest, "list"))
            formals = (formals + " . " + rest) if params else ". " + rest
        self.gprocs.setdefault(name, (len(params), variadic, ret))
        self.rank = GLOBAL_PROCS.index(name)      # calls go to lower-ranked procedures only: no unbounded recursion
        try:
            return self.define_proc_body(name, params, variadic, ret, scope, formals, d, redefine)
        finally:
            self.rank = None

    def define_proc_body(self, name, params, variadic, ret, scope, formals, d, redefine):
        r = self.rng.random()
        if r < 0.12 and params:
            # structural recursion over the first parameter
            p = params[0]
            body = "(if (< %s 1) %s (%s (%s (- %s 1)%s) %s))" % (
                p, self.leaf(ret, scope), "+" if ret == "int" else "cons", name, p,
                "".join(" " + q for q in params[1:]), self.pick(["1", p]))
            if variadic:
                body = "(if (< %s 1) %s (%s %s %s))" % (p, self.leaf(ret, scope), "+" if ret == "int" else "cons", p, self.leaf(ret, scope))
        elif r < 0.2:
            # a closure-returning procedure with a quasiquote template inside the closure
            self.dist.hit("qq-in-returned-closure")
            ret = ("closure",)
            inner = self.pick(["o", "w"])
            body = "(lambda (%s) %s)" % (inner, self.gen_qq(3, scope + [(inner, "int")]))
        else:
            body = self.body(ret, d, scope)
        self.gprocs[name] = (len(params), variadic, ret)
        style = self.rng.random()
        if style < 0.7:
            return "(define (%s%s) %s)" % (name, (" " + formals) if formals else "", body)
        lf = "(%s)" % formals if not (variadic and not params) else formals[2:]
        return "(define %s (lambda %s %s))" % (name, lf, body)

    def toplevel(self, d):
        self.budget = 28
        r = self.rng.random()
        if r < 0.22 or not self.gvars:
            redefine = self.gvars and self.chance(0.4)
            name = self.pick(list(self.gvars)) if redefine else self.pick(GLOBAL_VARS)
            ty = self.gvars[name] if (redefine and self.chance(0.8)) else self.pick(["int", "int", "list", "sym"])
            if redefine:
                self.dist.hit("redefine-var")
            e = self.gen(ty, d, [])
            self.gvars[name] = ty
            return "(define %s %s)" % (name, e)
        if r < 0.45:
            return self.define_proc(d)
        if r < 0.53:
            name = self.pick(list(self.gvars))
            return "(set! %s %s)" % (name, self.gen(self.gvars[name], d, []))
        if r < 0.60 and self.gprocs:
            # call an earlier-compiled procedure, possibly through a closure it returned
            n = self.pick(list(self.gprocs))
            k, variadic, ret = self.gprocs[n]
            args = " ".join(self.gen("int", d - 2, []) for _ in range(k + (1 if variadic else 0)))
            if ret == ("closure",):
                return "((%s%s) %s)" % (n, (" " + args) if args else "", self.lit_int())
            return "(%s%s)" % (n, (" " + args) if args else "")
        ty = self.pick(["int", "int", "list", "any", "sym", "bool"])
        if self.chance(0.15):
            return self.effect(d, [])
        return self.gen(ty, d, [])

    def objects(self):
        """a procedure with 0..2 parameters and internal definitions that returns closures over them, applied several
        times; the objects are used interleaved: every activation owns its own locations (also those of a procedure
        without parameters), and internal definitions are re-initialised by every call"""
        self.dist.hit("objects-internal-define")
        tag = str(self.rng.randint(1, 99))
        k = self.rng.randint(0, 2)
        params = ["p", "q"][:k]
        init = self.pick(["0", "10"] + params) if params else self.pick(["0", "10", "(quote a)"])
        num = init != "(quote a)"
        style = self.rng.randrange(4)
        if style == 0 and num:      # counter: internal variable + internal procedure
            body = "(define st %s) (define (bump) (set! st (+ st 1)) st) (lambda () (bump))" % init
        elif style == 1 and num:    # getter/setter pair over one internal variable
            body = "(define st %s) (cons (lambda () st) (lambda (v) (set! st (+ st v)) st))" % init
        elif style == 2:            # the internal variable takes a value that differs per call (a global counter)
            body = "(define id (begin (set! objn%s (+ objn%s 1)) objn%s)) (lambda () id)" % (tag, tag, tag)
        else:                       # self-recursion through a parameterless procedure with an internal definition
            body = "(define here objn%s) (set! objn%s (+ objn%s 1)) (if (< here 3) (begin (mk%s%s) here) here)" % (
                tag, tag, tag, tag, "".join(" 1" for _ in params))
        forms = ["(define objn%s 0)" % tag,
                 "(define (mk%s%s) %s)" % (tag, "".join(" " + x for x in params), body)]
        args = lambda: "".join(" " + self.lit_int() for _ in params)
        if style == 3 or (style in (0, 1) and not num):
            if style != 3:
                return forms[:1] + ["(define (mk%s%s) (define id (begin (set! objn%s (+ objn%s 1)) objn%s)) (lambda () id))"
                                    % (tag, "".join(" " + x for x in params), tag, tag, tag),
                                    "(define oa%s (mk%s%s)) (define ob%s (mk%s%s))" % (tag, tag, args(), tag, tag, args()),
                                    "(list (oa%s) (ob%s) (oa%s))" % (tag, tag, tag)]
            return forms + ["(mk%s%s)" % (tag, args()), "objn%s" % tag]
        forms.append("(define oa%s (mk%s%s)) (define ob%s (mk%s%s))" % (tag, tag, args(), tag, tag, args()))
        if style == 1:
            forms.append("(list ((cdr oa%s) 5) ((car ob%s)) ((cdr ob%s) 1) ((car oa%s)))" % (tag, tag, tag, tag))
        else:
            forms.append("(list (oa%s) (oa%s) (ob%s) (oa%s))" % (tag, tag, tag, tag))
        return forms

    def session(self):
        nforms = self.rng.randint(1, 8)
        if self.chance(0.3):
            self.inject = self.pick(["unbound", "arity", "type", "nonproc", "error"])
        if self.chance(0.1):
            nforms = self.rng.randint(0, 3)
            pre = self.objects()
        else:
            pre = []
        forms = list(pre)
        for _ in range(nforms):
            d = self.rng.randint(1, 4)
            text = self.toplevel(d)
            if self.chance(0.12):
                text += " " + self.toplevel(self.rng.randint(1, 3))
            forms.append(text)
        return forms


def c01_session(rng, dist, wide=False):
    g = G01(rng, dist, wide)
    forms = g.session()
    if g.injected:
        dist.hit("sessions_with_injected_error")
    return forms


def c01_hygiene_session(rng, dist):
    """the separate small stream: variables named like the prelude's macro temporaries,
    user redefinition of globals a template mentions, and the other recorded classes"""
    r = rng.random()
    pick = lambda xs: xs[rng.randrange(len(xs))]
    if r < 0.45:
        nm = pick(PRELUDE_PATTERN_VARS)
        v1, v2 = rng.randint(1, 9), rng.randint(10, 19)
        shapes = [
            "(let ((%s %d)) (or #f %s))" % (nm, v1, nm),
            "(let ((%s %d)) (or %s %d))" % (nm, v1, nm, v2),
            "(let ((%s %d)) (cond (#f 0) (%d => (lambda (o) (+ o %s)))))" % (nm, v1, v2, nm),
            "(let ((%s %d)) (cond ((+ %s 1)) (else 0)))" % (nm, v1, nm),
            "(let ((%s %d)) (cond (#f 1) (#f) (else %s)))" % (nm, v1, nm),
            "(let ((%s %d)) (case (+ %d 0) ((%d) %s) (else 'no)))" % (nm, v1, v2, v2, nm),
            "(let ((%s %d)) (case %d ((%d) %s) (else 'no)))" % (nm, v1, v2, v2, nm),
            "(let* ((%s %d) (other (+ %s 1))) (and %s other))" % (nm, v1, nm, nm),
            "(define (f0 %s) (let loop ((i 0) (acc '())) (if (< i 2) (loop (+ i 1) (cons %s acc)) acc)))" % (nm, nm) + " (f0 %d)" % v1,
            "(letrec ((%s (lambda (k) (if (= k 0) 'done (%s (- k 1)))))) (%s 2))" % (nm, nm, nm),
            "(define %s %d)" % (nm, v1) + " (when (> %s 0) (unless (> %s 5) (list %s)))" % (nm, nm, nm),
            "(let ((%s %d)) (force (delay (+ %s 1))))" % (nm, v1, nm),
            "((lambda (%s . rest) (or (null? rest) %s)) %d %d)" % (nm, nm, v1, v2),
        ]
        dist.hit("hygiene:name:" + nm)
        return [pick(shapes)]
    if r < 0.65:
        g = pick(sorted(PRELUDE_TEMPLATE_GLOBALS))
        dist.hit("hygiene:global:" + g)
        if g == "memv":
            return ["(define (memv o l) %s)" % pick(["#t", "#f", "l"]), "(case %d ((1 2) 'low) ((3) 'three) (else 'other))" % rng.randint(1, 4)]
        if g == "not":
            return ["(define (not o) %s)" % pick(["o", "#t", "'x"]), "(unless %s 'ran)" % pick(["#f", "#t"]), "(list (when #t 'w))"]
        return ["(define (make-promise . o) 'mine)", "(define pp (delay (+ 1 2)))", "(force pp)"]
    if r < 0.72:
        dist.hit("class:begin-define")
        return [pick(["(begin (define g0 1))", "(begin (define g0 1) (define g1 2))", "(begin (display 'x) (define g0 5) g0)"]),
                pick(["g0", "(+ g0 1)", "(list g0)"])]
    if r < 0.80:
        dist.hit("class:qq-macro")
        return [pick(["`(and 1 2)", "`(x (or 1 2))", "`(let ((a 1)) a)", "`(1 (when a b))", "`((begin 1 2))", "`(cond (a b))",
                      "`(a (case x ((1) 2)))", "`(let 1)", "`(1 and 2)", "'(and 1 2)", "`(1 '(or 1 2))", "`(delay x)"])]
    if r < 0.88:
        dist.hit("class:unquote-splicing")
        return [pick(["`(1 ,@(list 2 3) 4)", "(define xs '(1 2))", "(let ((o '(a b))) `(,@o ,@o))"]),
                pick(["`(,@'() . tail)", "`(0 ,@(map (lambda (o) (* o o)) '(1 2)))", "'done"])]
    if r < 0.94:
        dist.hit("class:qq-dotted-unquote")
        return [pick(["`(a . ,(+ 1 2))", "(let ((o 5)) `(1 2 . ,o))", "`((a . ,(car '(b))) c)", "`(1 . ,(list 2 3))"])]
    dist.hit("class:qq-vector-shared")
    return ["(define (f0 o) %s)" % pick(["`#(,o)", "`(1 #(a))", "`#(1 2)", "`(#(,o) ,o)"]), "(f0 1)", "(f0 2)"]


def c01_core_exhaustive(maxdepth=2):
    """all expressions up to a depth over names {x y}, constants {0 1} and the core forms
    if / lambda+application / set! (sequenced by a lambda body) / quote, each evaluated in a
    session that defines x and y first"""
    atoms = ["x", "y", "0", "1", "'x"]
    levels = [atoms]
    for _ in range(maxdepth - 1 if maxdepth > 1 else 0):
        prev = [e for lv in levels for e in lv]
        last = levels[-1]
        new = []
        for a in last:
            for b in atoms:
                new.append("((lambda (x) %s) %s)" % (a, b))
                new.append("((lambda (y . x) %s) %s)" % (a, b))
                new.append("((lambda () (set! x %s) %s))" % (a, b))
                new.append("(set! y %s)" % a) if b == "0" else None
                for c in atoms[:3]:
                    new.append("(if %s %s %s)" % (a, b, c))
                    new.append("(if %s %s %s)" % (b, a, c))
        levels.append(new)
    out = []
    for lv in levels:
        for e in lv:
            out.append(["(define x 'gx) (define y 2)", "%s (list x y)" % e])
    return out


# =============================================================================== C02
NAMES3 = ["a", "b", "c"]
MODES = "FPRI"          # free, parameter, rest parameter, internal definition
ACTS_INNER = ["-", "r", "s"]
ACTS_OUTER = ["-", "rb", "ra", "sb", "sa"]
PATTERNS = ["in", "ret", "ret2", "loop"]


def sk_valid(D, cols):
    """cols[name][level] = (mode, act).  At most one rest parameter per level; every binding
    is used (some action on the name at that level or deeper before it is rebound)"""
    for l in range(D):
        if sum(1 for n in range(3) if cols[n][l][0] == "R") > 1:
            return False
    for n in range(3):
        for l in range(D):
            if cols[n][l][0] != "F":
                used = False
                for l2 in range(l, D):
                    if l2 > l and cols[n][l2][0] != "F":
                        break
                    if cols[n][l2][1] != "-":
                        used = True
                        break
                if not used:
                    return False
    return True


def sk_nontrivial(D, cols):
    """at least one captured variable is mutated after capture"""
    for n in range(3):
        for l in range(D):
            act = cols[n][l][1]
            if act[0] != "s":
                continue
            binder = -1
            for l2 in range(l, -1, -1):
                if cols[n][l2][0] != "F":
                    binder = l2
                    break
            if binder >= 0 and binder < l:
                return True          # assigned from inside a closure
            if binder == l and act == "sa":
                for l2 in range(l + 1, D):
                    if cols[n][l2][0] != "F":
                        break
                    if cols[n][l2][1] != "-":
                        return True  # assigned by the creator after the closure captured it
    return False


def sk_program(D, pattern, cols, patterns_per_level=None, qq_levels=(), kstyle="param", pure_set=False, helper=False):
    """the probe program of a skeleton: every read is logged with display; at the levels in
    qq_levels the read goes through a quasiquote template, (display `(,x)).  kstyle: the
    location holding the next-level closure is a parameter of its creator ("param", passed
    #f) or an internal definition ("idef": procedures without bound names are thunks).
    pure_set: a set! action is a bare assignment (set! x 'wL) with no read in the same
    procedure (the variable is then mentioned by that procedure only as an assignment target).
    helper: every procedure starts with an internal definition in the (define (h p ...) ...) form whose parameters
    carry the SAME NAMES as the skeleton's variables (they bind inside h only: what the enclosing body reads after
    the definition is still the enclosing binding)"""
    pats = patterns_per_level or [pattern] * D

    def args_for(l):
        """actual arguments for the level-l procedure: #f for its closure slot, then
        parameters in name order, then two extra for the rest parameter"""
        a = ["#f"] if kstyle == "param" else []
        for n in range(3):
            if cols[n][l][0] == "P":
                a.append("'%s%d" % (NAMES3[n], l + 1))
        for n in range(3):
            if cols[n][l][0] == "R":
                a += ["'%s%dr" % (NAMES3[n], l + 1), "'%s%ds" % (NAMES3[n], l + 1)]
        return " ".join(a)

    def act_code(n, l, what):
        nm = NAMES3[n]
        if what == "set":
            if pure_set:
                return "(set! %s 'w%d)" % (nm, l + 1)
            return "(set! %s (cons 's%d %s))" % (nm, l + 1, nm)
        if pure_set and cols[n][l][1][0] == "s":
            return "'skip"
        if l in qq_levels:
            return "(display `(,%s))" % nm
        return "(display %s)" % nm

    def proc(l, extra_reads=()):
        k = "k%d" % (l + 1)
        formals = ([k] if kstyle == "param" else []) + [NAMES3[n] for n in range(3) if cols[n][l][0] == "P"]
        rest = [NAMES3[n] for n in range(3) if cols[n][l][0] == "R"]
        if rest and not formals:
            ftxt = rest[0]
        else:
            ftxt = "(%s%s)" % (" ".join(formals), (" . " + rest[0]) if rest else "")
        body = []
        if helper:
            body.append("(define (h%d %s) (list %s))" % (l + 1, " ".join(NAMES3), " ".join(NAMES3)))
        if kstyle == "idef" and l < D - 1:
            body.append("(define %s #f)" % k)
        for n in range(3):
            if cols[n][l][0] == "I":
                body.append("(define %s '%s%di)" % (NAMES3[n], NAMES3[n], l + 1))
        for x in extra_reads:
            body.append("(display %s)" % x)
        inner = l == D - 1
        if inner:
            for n in range(3):
                act = cols[n][l][1]
                if act == "s":
                    body.append(act_code(n, l, "set"))
                if act in ("r", "s"):
                    body.append(act_code(n, l, "read"))
            body.append("'r%d" % (l + 1))
            return "(lambda %s %s)" % (ftxt, " ".join(body))
        for n in range(3):
            act = cols[n][l][1]
            if act == "sb":
                body.append(act_code(n, l, "set"))
            if act in ("rb", "sb"):
                body.append(act_code(n, l, "read"))
        pat = pats[l]
        if pat == "loop":
            iv = "i%d" % (l + 1)
            child = proc(l + 1, extra_reads=(iv,))
            body.append("(set! %s (let loop ((%s 0) (acc '())) (if (< %s 2) (loop (+ %s 1) (cons %s acc)) acc)))"
                        % (k, iv, iv, iv, child))
        else:
            body.append("(set! %s %s)" % (k, proc(l + 1)))
        for n in range(3):
            if cols[n][l][1] == "sa":
                body.append(act_code(n, l, "set"))
        reads = [act_code(n, l, "read") for n in range(3) if cols[n][l][1] in ("ra", "sa")]
        if pat == "in":
            body.append(invoke(k, l + 1))
            body += reads
            body.append("'r%d" % (l + 1))
        elif pat == "loop":
            body.append(invoke("(car %s)" % k, l + 1))
            body.append(invoke("(car (cdr %s))" % k, l + 1))
            body.append(invoke("(car %s)" % k, l + 1))
            body += reads
            body.append("'r%d" % (l + 1))
        else:
            body += reads
            body.append(k)
        return "(lambda %s %s)" % (ftxt, " ".join(body))

    def call_of(f, l):
        return ("(%s %s)" % (f, args_for(l))).replace(" )", ")")

    def returns_closure(l):
        return l < D - 1 and pats[l] in ("ret", "ret2")

    def use(cexpr, l):
        """cexpr evaluates to the level-l procedure, which its creator RETURNED (pats[l-1] is
        ret or ret2).  ret: one activation.  ret2 (repeatedly): the same closure is activated
        several times; when those activations return closures of their own, the first one's is
        used again AFTER the second activation ran (separate activations, separate locations;
        the creator's locations are shared)"""
        if pats[l - 1] == "ret":
            call = call_of(cexpr, l)
            return use(call, l + 1) if returns_closure(l) else call
        if returns_closure(l):
            return "((lambda (cl) ((lambda (x y) %s %s %s) %s %s)) %s)" % (
                use("x", l + 1), use("y", l + 1), use("x", l + 1), call_of("cl", l), call_of("cl", l), cexpr)
        return "((lambda (cl) %s %s %s) %s)" % (call_of("cl", l), call_of("cl", l), call_of("cl", l), cexpr)

    def invoke(f, l):
        """call the level-l procedure held by expression f (from its creator's body or the top level)"""
        call = call_of(f, l)
        return use(call, l + 1) if returns_closure(l) else call

    forms = ["(define a 'a0) (define b 'b0) (define c 'c0)",
             "(define p1 %s)" % proc(0)]
    forms.append(invoke("p1", 0))
    if pats[0] == "ret2" and D > 1:
        # a second, independent activation of the outermost procedure after the first returned
        forms.append(invoke("p1", 0))
    forms.append("(display a) (display b) (display c)")
    return forms


_SINGLE = {}


def sk_single_columns(D):
    """valid single-name columns (every binding used) of depth D, grouped by weight
    (number of actions, number of bindings)"""
    if D in _SINGLE:
        return _SINGLE[D]
    outer = [(m, a) for m in MODES for a in ACTS_OUTER]
    inner = [(m, a) for m in MODES for a in ACTS_INNER]
    buckets = {}
    for c in itertools.product(*([outer] * (D - 1) + [inner])):
        ok = True
        for l in range(D):
            if c[l][0] != "F":
                used = False
                for l2 in range(l, D):
                    if l2 > l and c[l2][0] != "F":
                        break
                    if c[l2][1] != "-":
                        used = True
                        break
                if not used:
                    ok = False
                    break
        if ok:
            w = (sum(1 for m, a in c if a != "-"), sum(1 for m, a in c if m != "F"))
            buckets.setdefault(w, []).append(c)
    _SINGLE[D] = buckets
    return buckets


def sk_columns(D, max_actions, max_bindings):
    """all valid column assignments for D levels within the caps (a generator, in a fixed order)"""
    buckets = sk_single_columns(D)
    keys = sorted(k for k in buckets if k[0] <= max_actions and k[1] <= max_bindings)
    for ki in keys:
        for kj in keys:
            if ki[0] + kj[0] > max_actions or ki[1] + kj[1] > max_bindings:
                continue
            for kk in keys:
                if ki[0] + kj[0] + kk[0] > max_actions or ki[1] + kj[1] + kk[1] > max_bindings:
                    continue
                if ki[0] + kj[0] + kk[0] == 0:
                    continue
                for ca in buckets[ki]:
                    for cb in buckets[kj]:
                        for cc in buckets[kk]:
                            ok = True
                            for l in range(D):
                                if (ca[l][0] == "R") + (cb[l][0] == "R") + (cc[l][0] == "R") > 1:
                                    ok = False
                                    break
                            if ok:
                                yield (ca, cb, cc)


def c02_enumerate(caps):
    """caps: {D: (max_actions, max_bindings)} -> iterator of (D, pattern, cols)"""
    for D in sorted(caps):
        ma, mb = caps[D]
        for cols in sk_columns(D, ma, mb):
            for pat in (PATTERNS if D > 1 else ["in"]):
                yield D, pat, cols


def c02_random(rng, dist):
    """random deeper / denser skeletons: up to 5 levels, per-level invocation patterns,
    unused bindings allowed (they move slots)"""
    D = rng.choice([2, 3, 3, 4, 4, 4, 5])
    while True:
        cols = []
        for n in range(3):
            col = []
            for l in range(D):
                m = rng.choice("FFFPPRI")
                a = rng.choice(ACTS_INNER if l == D - 1 else ["-", "-", "rb", "ra", "sb", "sa"])
                col.append((m, a))
            cols.append(tuple(col))
        cols = tuple(cols)
        if all(sum(1 for n in range(3) if cols[n][l][0] == "R") <= 1 for l in range(D)):
            break
    pats = [rng.choice(PATTERNS) for _ in range(D)]
    dist.hit("random_depth_%d" % D)
    return D, pats, cols


# =============================================================================== C05
class G05(object):
    """sessions about call/cc: escapes, re-entry, stored continuations, generators"""

    def __init__(self, rng, dist, wide=False):
        self.rng, self.dist, self.wide = rng, dist, wide
        self.n = 0

    def pick(self, xs):
        return xs[self.rng.randrange(len(xs))]

    def chance(self, p):
        return self.rng.random() < p

    def val(self):
        return self.pick(["1", "2", "5", "10", "'v", "'(1 2)", "42", "7"])

    def ival(self):
        return str(self.pick([1, 2, 3, 5, 10, 20]))

    def context(self, hole, depth=None):
        """wrap an int-valued expression in operand / tail / nested positions with markers
        showing what is (re-)executed around it"""
        depth = self.rng.randint(0, 3) if depth is None else depth
        e = hole
        for _ in range(depth):
            k = self.rng.randrange(14)
            self.dist.hit("ctx:%d" % k)
            if k == 0:
                e = "(+ %s %s)" % (self.ival(), e)                     # last operand
            elif k == 1:
                e = "(+ %s (begin (display 'post) %s))" % (e, self.ival())   # first operand: later operand re-runs
            elif k == 2:
                e = "(+ (begin (display 'pre) %s) %s)" % (self.ival(), e)    # earlier operand keeps its value
            elif k == 3:
                e = "(let ((o %s)) (display 'body) (+ o 1))" % e
            elif k == 4:
                e = "(if (< 0 %s) %s 0)" % (self.ival(), e)               # tail of if
            elif k == 5:
                e = "(begin (display 'seq) %s)" % e
            elif k == 6:
                e = "((lambda (o p) (- o p)) %s %s)" % (e, self.ival())
            elif k == 7:
                e = "(apply + (list 1 %s))" % e
            elif k == 8:
                e = "(car (list %s 'x))" % e
            elif k == 9:
                e = "(call/cc (lambda (outer) (+ 1 %s)))" % e             # nested inside another call/cc
            elif k == 10:
                e = "(cond ((< %s 0) 'neg) (else (* 2 %s)))" % (self.ival(), e)
            elif k == 12:
                # the resumed frame reads a variable that lives in its lexical environment (captured by a closure)
                e = "(let ((loc %s)) (let ((cl (lambda () loc))) (+ (cl) %s loc)))" % (self.ival(), e)
            elif k == 13:
                # ... and assigns it after resuming; an internal definition shares the frame
                e = "((lambda (loc) (define (bump) (set! loc (+ loc 1)) loc) (bump) (+ %s (bump) loc)) %s)" % (e, self.ival())
            else:
                e = "((lambda args (apply + args)) 1 %s 2)" % e            # variadic frame
        return e

    def fragment(self, tag):
        """one scenario: a list of form texts using globals suffixed by tag"""
        r = self.rng.randrange(23)
        k, n, acc = "k" + tag, "n" + tag, "r" + tag
        times = self.rng.randint(0, 3)
        self.dist.hit("scenario:%d" % r)
        self.dist.hit("reentries_%d" % times if r in (2, 3, 4, 5, 8, 9, 11, 16, 17) else "reentries_na")
        if r == 0:   # pure escape from nested contexts
            return [self.context("(call/cc (lambda (k) %s))" % self.context("(k %s)" % self.ival()))]
        if r == 1:   # receiver returns normally == ordinary call
            rec = self.pick(["(lambda (k) %s)" % self.ival(), "(lambda (k) (+ 1 %s))" % self.ival(), "(lambda args (length args))",
                             "procedure?", "(lambda (k . more) (null? more))", "(lambda (k) (if #f (k 1) 7))"])
            return [self.context("(call/cc %s)" % rec) if "null?" not in rec and "procedure?" not in rec else "(call/cc %s)" % rec,
                    "(%s 'x)" % rec if rec.startswith("(lambda (k) 7") else "'ok"]
        if r == 2:   # stored in a global, re-entered from later top-level forms
            forms = ["(define %s #f) (define %s 0)" % (k, n),
                     self.context("(call/cc (lambda (c) (set! %s c) %s))" % (k, self.ival()))]
            for i in range(times):
                forms.append("(%s %s)" % (k, self.ival()))
            forms.append("(procedure? %s)" % k)
            return forms
        if r == 3:   # counter loop: re-enter from a later form until the counter is exhausted
            return ["(define %s #f) (define %s 0)" % (k, n),
                    "(begin (display 'start) (call/cc (lambda (c) (set! %s c))) (set! %s (+ %s 1)) (display %s) %s)" % (k, n, n, n, n),
                    "(if (< %s %d) (%s 'again) 'done)" % (n, times + 1, k),
                    "(list %s)" % n]
        if r == 4:   # loop inside one form: the continuation re-enters its own extent
            return ["(define %s 0)" % n,
                    "(let ((kk #f) (out '())) (set! out (cons (call/cc (lambda (c) (set! kk c) 0)) out)) (set! %s (+ %s 1)) "
                    "(if (< %s %d) (kk %s) (list %s out)))" % (n, n, n, times + 1, n, n)]
        if r == 5:   # stored in a pair / list and invoked through the data structure
            return ["(define %s (cons #f '())) (define %s 0)" % (k, n),
                    self.context("(call/cc (lambda (c) (set-car! %s c) (set-cdr! %s (list c c)) %s))" % (k, k, self.ival())),
                    "(set! %s (+ %s 1))" % (n, n),
                    "(if (< %s %d) ((%s %s) %s) %s)" % (n, times + 1, self.pick(["car", "cadr", "caddr-like"]).replace("caddr-like", "cadr"), k, self.ival(), n)]
        if r == 6:   # escape from for-each / map callbacks
            lst = self.pick(["'(1 2 3 4)", "'(5 1 7)", "'()", "'(3)"])
            return ["(call/cc (lambda (break) (for-each (lambda (o) (display o) (if (> o %s) (break o))) %s) 'none))" % (self.pick(["1", "2", "4"]), lst),
                    "(call/cc (lambda (break) (map (lambda (o) (if (= o %s) (break (list 'found o)) (* o o))) %s)))" % (self.pick(["1", "7", "9"]), lst)]
        if r == 7:   # continuations captured inside map callbacks, re-entered later: earlier results must not change
            return ["(define %s '()) (define %s 0)" % (k, n),
                    "(define %s (map (lambda (o) (call/cc (lambda (c) (set! %s (cons c %s)) o))) '(1 2 3)))" % (acc, k, k),
                    acc,
                    "(if (< %s %d) (begin (set! %s (+ %s 1)) ((%s %s) (* 10 %s))) 'stop)" % (n, times, n, n, self.pick(["car", "cadr"]), k, n),
                    acc, "(length %s)" % k]
        if r == 8:   # generator-style re-entry: producer and consumer swap continuations
            return ["(define (make-gen%s lst) (define return #f) (define (gen) (call/cc (lambda (rt) (set! return rt) "
                    "(for-each (lambda (o) (call/cc (lambda (next) (set! gen (lambda () (next #f))) (return o)))) lst) (return 'done)))) "
                    "(lambda () (gen)))" % tag,
                    "(define g%s (make-gen%s '(%s)))" % (tag, tag, " ".join(str(i) for i in range(1, self.rng.randint(1, 4))))] + \
                   ["(g%s)" % tag for _ in range(times + 1)] + ["(list (g%s) (g%s))" % (tag, tag)]
        if r == 9:   # invoked inside another continuation's extent
            return ["(define %s #f) (define j%s #f) (define %s 0)" % (k, tag, n),
                    "(+ 1 (call/cc (lambda (c) (set! %s c) 1)))" % k,
                    "(* 2 (call/cc (lambda (c) (set! j%s c) (set! %s (+ %s 1)) (if (< %s %d) (%s %s) 3))))" % (tag, n, n, n, times + 1, k, n),
                    "(if (< %s %d) (begin (set! %s (+ %s 1)) (j%s %s)) 'end)" % (n, times + 2, n, n, tag, n),
                    n]
        if r == 10:  # k as a first-class procedure: apply, map, passing k to k, zero arguments
            return [self.pick(["(call/cc (lambda (k) (apply k (list %s))))" % self.val(),
                               "(+ 1 (call/cc (lambda (k) (map k '(1 2 3)))))",
                               "(call/cc (lambda (k) (k)))",
                               "(call/cc (lambda (k) (for-each k '(4 5)) 'no))",
                               "((call/cc (lambda (k) k)) (lambda (o) %s))" % self.val(),
                               "(call/cc (lambda (k1) (call/cc (lambda (k2) (k1 (k2 %s))))))" % self.val(),
                               "(let ((o (call/cc (lambda (k) k)))) (if (procedure? o) (o %s) o))" % self.val(),
                               "(call/cc call/cc)", "((call/cc call/cc) (lambda (o) 'same))"])]
        if r == 11:  # mutations made since capture stay visible; operands evaluated before capture keep their values
            return ["(define %s #f) (define %s 0) (define cell%s (list 0))" % (k, n, tag),
                    "(list (begin (display 'first) %s) (call/cc (lambda (c) (set! %s c) 'captured)) (begin (display 'third) (car cell%s)) %s)" % (n, k, tag, n),
                    "(begin (set! %s (+ %s 1)) (set-car! cell%s %s) (if (< %s %d) (%s 'again) 'over))" % (n, n, tag, n, n, times + 1, k)]
        if r == 12:  # tail position in a procedure, variadic frame, re-entered after return
            return ["(define %s #f) (define %s 0)" % (k, n),
                    "(define (tail%s . args) (call/cc (lambda (c) (set! %s c) (apply + args))))" % (tag, k),
                    self.context("(tail%s 1 2 3)" % tag),
                    "(begin (set! %s (+ %s 1)) (if (< %s %d) (%s %s) 'fin))" % (n, n, n, times + 1, k, "(* 100 %s)" % n)]
        if r == 13:  # error after re-entry / inside a receiver; state survives
            return ["(define %s #f)" % k,
                    "(+ 1 (call/cc (lambda (c) (set! %s c) (car '()))))" % k,
                    "(if %s (%s 1) 'never-captured)" % (k, k),
                    "(call/cc (lambda (c) (set! %s c) (error \"in-receiver\" 1)))" % k,
                    "(%s 5)" % k]
        if r == 16:  # captured inside a procedure whose locals live in a closure environment; re-entered from the top level
            return ["(define %s #f) (define %s 0)" % (k, n),
                    "(define (proc%s x) (let ((y (* x 2))) (define (getter) (list x y)) (set! y (+ y (call/cc (lambda (c) (set! %s c) 1)))) "
                    "(display (getter)) (set! x (+ x 1)) (list x y %s)))" % (tag, k, n),
                    self.context("(car (proc%s %s))" % (tag, self.ival())),
                    "(if (< %s %d) (begin (set! %s (+ %s 1)) (%s (* 10 %s))) 'done)" % (n, times, n, n, k, n)]
        if r == 17:  # re-entered from inside another procedure's activation (a different environment is current)
            return ["(define %s #f) (define %s 0)" % (k, n),
                    "(define (host%s a) (let ((b (+ a 1))) (let ((show (lambda () (list a b)))) "
                    "(list (show) (call/cc (lambda (c) (set! %s c) 0)) (begin (set! b (+ b 1)) (show))))))" % (tag, k),
                    "(host%s %s)" % (tag, self.ival()),
                    "(define (other%s z) (let ((w (* z 2))) (let ((peek (lambda () w))) (if (< %s %d) (begin (set! %s (+ %s 1)) (%s (peek))) (peek)))))" % (tag, n, times, n, n, k),
                    "(other%s %s)" % (tag, self.ival()), "(other%s 7)" % tag]
        if r in (20, 21, 22):
            # call/cc directly in the body of a procedure with 0..1 parameters and internal definitions, applied as the
            # whole top-level form; allocation-heavy forms in between make real collections happen before the
            # continuation is re-entered (what it needs must have been kept alive by the collector)
            formals = "" if r != 22 else " p"
            arg = "" if r != 22 else " 3"
            self.dist.hit("thunk-capture-then-churn")
            return ["(define %s #f) (define %s 0)" % (k, n),
                    "(define (churn%s i) (if (= i 0) 'ok (begin (list i i i i) (churn%s (- i 1)))))" % (tag, tag),
                    "(define (gen%s%s) (define loc 5) (define v (call/cc (lambda (c) (set! %s c) 1))) (set! loc (+ loc v)) (list loc v))"
                    % (tag, formals, k),
                    "(gen%s%s)" % (tag, arg),
                    "(churn%s %d)" % (tag, self.pick([100, 300, 600])), "(churn%s %d)" % (tag, self.pick([50, 300])),
                    "(if (< %s 2) (begin (set! %s (+ %s 1)) (%s (* 10 %s))) 'done)" % (n, n, n, k, n),
                    "(churn%s 200)" % tag,
                    "(if (< %s 3) (begin (set! %s (+ %s 1)) (%s (* 10 %s))) 'done)" % (n, n, n, k, n)]
        if r in (18, 19):  # captured deep inside a non-tail recursion (the VM stack has grown beyond its initial
            # 256 slots from depth 42), re-entered from later top-level forms after that evaluation has ended,
            # with a failed or an ordinary evaluation in between
            d = self.pick([3, 41, 42, 43, 64, 100, 300])
            mid = self.pick(["'between", "(car '())", "(+ 1 2)", "(vector-ref (vector) 1)"])
            self.dist.hit("deep-capture-depth_%d" % d)
            return ["(define %s #f) (define %s 0)" % (k, n),
                    "(define (deep%s i) (if (= i 0) (call/cc (lambda (c) (set! %s c) 0)) (+ 1 (deep%s (- i 1)))))" % (tag, k, tag),
                    "(deep%s %d)" % (tag, d), mid,
                    "(begin (set! %s (+ %s 1)) (%s (* 1000 %s)))" % (n, n, k, n),
                    "(list %s (%s 5))" % (n, k) if self.chance(0.5) else "(%s 7)" % k]
        if r == 14 and self.wide:   # stored in a vector (vocabulary outside the model)
            self.dist.hit("wide-builtin")
            return ["(define vec%s (make-vector 2 #f)) (define %s 0)" % (tag, n),
                    self.context("(call/cc (lambda (c) (vector-set! vec%s 1 c) %s))" % (tag, self.ival())),
                    "(begin (set! %s (+ %s 1)) (if (< %s %d) ((vector-ref vec%s 1) %s) %s))" % (n, n, n, times + 1, tag, n, n)]
        # re-entry into a let-bound value with closures created before and after capture
        return ["(define %s #f) (define %s 0) (define fs%s '())" % (k, n, tag),
                "(let ((o (call/cc (lambda (c) (set! %s c) 0)))) (set! fs%s (cons (lambda () o) fs%s)) o)" % (k, tag, tag),
                "(if (< %s %d) (begin (set! %s (+ %s 1)) (%s %s)) 'done)" % (n, times, n, n, k, n),
                "(map (lambda (f) (f)) fs%s)" % tag]

    def session(self):
        forms = []
        for i in range(self.rng.randint(1, 3)):
            forms += self.fragment(str(i))
        return forms[:12]


def c05_session(rng, dist, wide=False):
    return G05(rng, dist, wide).session()
