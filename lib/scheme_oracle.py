"""scheme_oracle.py — shared pieces of the property modules C01 / C02 / C05:
running the reference interpreter (lib/scheme_ref.py) over many sessions in parallel,
comparing the implementation's canonical line with the reference's, the syntactic
predicates of the recorded defect classes, and shrinking of sessions.

The reference interpreter is an ORACLE used to classify the implementation's output; it
is not a proof.  The theorems live in coq/Props/C0x.v."""
import multiprocessing, os, re, sys
import scheme_ref as R
import scheme_gen as G
from scheme_ref import Pair, Sym, NIL, Vector, S

# ----------------------------------------------------------- reference results
CACHE = {}
STATS = {"ref_limit": 0, "ref_unspecified": 0}


def _ref_one(forms):
    try:
        return R.run_session_ex(forms)
    except Exception as e:      # a bug in the reference interpreter must be visible, not fatal
        return "BUG", "%s: %s" % (type(e).__name__, e), []


def ref_many(sessions, nproc=None):
    """[(status, line)] for a list of sessions (each a list of form texts)"""
    nproc = nproc or min(16, os.cpu_count() or 4)
    if len(sessions) < 200 or nproc == 1:
        return [_ref_one(s) for s in sessions]
    with multiprocessing.Pool(nproc) as pool:
        return pool.map(_ref_one, sessions, chunksize=max(1, len(sessions) // (nproc * 8)))


def expected(case):
    key = tuple(case)
    r = CACHE.get(key)
    if r is None:
        r = CACHE[key] = _ref_one(G.decode(case))
    return r


def remember(case, result):
    CACHE[tuple(case)] = result


# -------------------------------------------------------------------- comparing
_KIND = re.compile(r"(?:(?<= )|^)(OK|ERR user|ERR incomplete|ERR|PANIC|NOFUEL|TIMEOUT|\||LOG)(?= |$)")


def kinds(line):
    return _KIND.findall(line)


def compare(case, impl_line):
    """None when the implementation's line agrees with the reference semantics (or the
    session is not a usable specification); otherwise 'kind: message'"""
    if impl_line.startswith("NOTRUN"):
        return None       # not executed: an earlier case of the same shard hung (reported there)
    st, exp = expected(case)[:2]
    if st == "BUG":
        return "oracle-bug: the reference interpreter crashed: %s" % exp
    if st != "OK":
        return None       # not a usable specification (non-terminating within the limit, or unspecified by R7RS)
    if impl_line == "PANIC" or impl_line.startswith(("ABORT", "TIMEOUT")) or " PANIC" in impl_line:
        return "panic: the implementation panicked or hung (%s)" % impl_line[:120]
    if R.match_line(exp, impl_line):
        return None
    ke, ka = kinds(exp), kinds(impl_line)
    kind = "wrong-value"
    pos = None
    for i, (a, b) in enumerate(zip(ke, ka)):
        if a != b:
            pos = i
            if a == "OK" and b.startswith("ERR"):
                kind = "spurious-error"
            elif a.startswith("ERR") and b == "OK":
                kind = "missing-error"
            elif a == "ERR user" or b == "ERR user":
                kind = "wrong-error-class"
            else:
                kind = "wrong-shape"
            break
    if pos is None and len(ke) != len(ka):
        kind = "wrong-shape"
    if pos is None and len(ke) == len(ka):
        # same outcome kinds: a value or the output log differs
        le, la = exp.rfind(" LOG"), impl_line.rfind(" LOG")
        if le >= 0 and la >= 0 and R.match_line(exp[:le], impl_line[:la]):
            kind = "wrong-output"
    return "%s: implementation %s; %s" % (kind, impl_line[:400], R.first_difference(exp, impl_line))


# ------------------------------------------- marwood's expansion (for class predicates)
# The predicates of the recorded defect classes are syntactic, over the SOURCE TEXT of a
# case.  To keep them as narrow as the code branch they name, qq-free-var needs to know
# where the prelude's macros put a lambda (begin, let, cond clauses... all expand to
# procedures); mw_expand mirrors marwood/prelude.scm's syntax-rules for that purpose only.
def L(*xs):
    return R.py_to_list(list(xs))


def _lst(x):
    out = []
    while type(x) is Pair:
        out.append(x.car)
        x = x.cdr
    return out, x


MACROS = ("let", "let*", "letrec", "letrec*", "or", "and", "when", "unless", "begin", "cond", "case", "delay", "delay-force")


def mw_expand(x, depth=0):
    if depth > 200 or type(x) is not Pair:
        return x
    h = x.car
    items, tail = _lst(x)
    if tail is not NIL:
        return x
    name = h.name if type(h) is Sym else None
    if name == "quote":
        return x
    if name == "quasiquote" and len(items) == 2:
        return L(h, _expand_template(items[1], 1, depth))
    if name == "lambda" and len(items) >= 3:
        return R.py_to_list([h, items[1]] + [mw_expand(b, depth + 1) for b in items[2:]])
    if name == "define" and len(items) >= 3 and type(items[1]) is Pair:
        return L(h, items[1].car, R.py_to_list([S("lambda"), items[1].cdr] + [mw_expand(b, depth + 1) for b in items[2:]]))
    if name in MACROS:
        y = _rewrite(name, items)
        if y is not None:
            return mw_expand(y, depth + 1)
        return x
    return R.py_to_list([mw_expand(i, depth + 1) for i in items])


def _expand_template(t, level, depth):
    if type(t) is Pair:
        items, tail = _lst(t)
        if len(items) == 2 and tail is NIL and type(items[0]) is Sym:
            if items[0].name in ("unquote", "unquote-splicing"):
                if level == 1:
                    return L(items[0], mw_expand(items[1], depth + 1))
                return L(items[0], _expand_template(items[1], level - 1, depth))
            if items[0].name == "quasiquote":
                return L(items[0], _expand_template(items[1], level + 1, depth))
        return R.py_to_list([_expand_template(i, level, depth) for i in items],
                            _expand_template(tail, level, depth) if tail is not NIL else NIL)
    if type(t) is Vector:
        return Vector([_expand_template(i, level, depth) for i in t.items])
    return t


def _rewrite(name, items):
    """one step of the prelude's syntax-rules for a macro use (None: no rule matches)"""
    a = items[1:]
    lam, iff, let, begin = S("lambda"), S("if"), S("let"), S("begin")
    try:
        if name == "let":
            if a and type(a[0]) is Sym:
                tag, bs, body = a[0], _lst(a[1])[0], a[2:]
                names = [b.car for b in bs]
                vals = [b.cdr.car for b in bs]
                if not body:
                    return None
                proc = R.py_to_list([lam, R.py_to_list(names)] + body)
                return R.py_to_list([L(S("letrec"), L(L(tag, proc)), tag)] + vals)
            bs, body = _lst(a[0])[0], a[1:]
            if not body:
                return None
            names = [b.car for b in bs]
            vals = [b.cdr.car for b in bs]
            return R.py_to_list([R.py_to_list([lam, R.py_to_list(names)] + body)] + vals)
        if name in ("letrec", "letrec*"):
            bs, body = _lst(a[0])[0], a[1:]
            if not body:
                return None
            names = [b.car for b in bs]
            vals = [b.cdr.car for b in bs]
            return R.py_to_list([let, R.py_to_list([L(n, False) for n in names])] +
                                [L(S("set!"), n, v) for n, v in zip(names, vals)] +
                                [R.py_to_list([let, NIL] + body)])
        if name == "let*":
            bs, body = _lst(a[0])[0], a[1:]
            if not body:
                return None
            if not bs:
                return R.py_to_list([let, NIL] + body)
            return L(let, L(bs[0]), R.py_to_list([S("let*"), R.py_to_list(bs[1:])] + body))
        if name == "or":
            if not a:
                return False
            if len(a) == 1:
                return a[0]
            v = S("var1")
            return L(let, L(L(v, a[0])), L(iff, v, v, R.py_to_list([S("or")] + a[1:])))
        if name == "and":
            if not a:
                return True
            if len(a) == 1:
                return a[0]
            return L(iff, a[0], R.py_to_list([S("and")] + a[1:]), False)
        if name == "when":
            if len(a) < 2:
                return None
            return L(iff, a[0], R.py_to_list([begin] + a[1:]))
        if name == "unless":
            if len(a) < 2:
                return None
            return L(iff, L(S("not"), a[0]), R.py_to_list([begin] + a[1:]))
        if name == "begin":
            return L(R.py_to_list([lam, NIL] + a))
        if name == "delay":
            return L(S("delay-force"), L(S("make-promise"), True, a[0]))
        if name == "delay-force":
            return L(S("make-promise"), False, L(lam, NIL, a[0]))
        if name == "cond":
            if not a:
                return None
            cl, _ = _lst(a[0])
            rest = a[1:]
            temp = S("temp")
            more = R.py_to_list([S("cond")] + rest)
            if cl[0] is S("else") and not rest and len(cl) >= 2:
                return R.py_to_list([begin] + cl[1:])
            if len(cl) == 3 and cl[1] is S("=>"):
                if not rest:
                    return L(let, L(L(temp, cl[0])), L(iff, temp, L(cl[2], temp)))
                return L(let, L(L(temp, cl[0])), L(iff, temp, L(cl[2], temp), more))
            if len(cl) == 1:
                if not rest:
                    return cl[0]
                return L(let, L(L(temp, cl[0])), L(iff, temp, temp, more))
            if not rest:
                return L(iff, cl[0], R.py_to_list([begin] + cl[1:]))
            return L(iff, cl[0], R.py_to_list([begin] + cl[1:]), more)
        if name == "case":
            key, clauses = a[0], a[1:]
            if type(key) is Pair:
                ak = S("atom-key")
                return L(let, L(L(ak, key)), R.py_to_list([S("case"), ak] + clauses))
            if not clauses:
                return None
            cl, _ = _lst(clauses[0])
            rest = clauses[1:]
            more = R.py_to_list([S("case"), key] + rest)
            if cl[0] is S("else") and not rest:
                if len(cl) == 3 and cl[1] is S("=>"):
                    return L(cl[2], key)
                return R.py_to_list([begin] + cl[1:])
            test = L(S("memv"), key, L(S("quote"), cl[0]))
            if len(cl) == 3 and cl[1] is S("=>"):
                if not rest:
                    return L(iff, test, L(cl[2], key))
                return L(iff, test, L(cl[2], key), more)
            if not rest:
                return L(iff, test, R.py_to_list([begin] + cl[1:]))
            return L(iff, test, R.py_to_list([begin] + cl[1:]), more)
    except (AttributeError, IndexError):
        return None
    return None


# ---- analysis of the expanded (core) program
def _formals(f):
    names = []
    while type(f) is Pair:
        if type(f.car) is Sym:
            names.append(f.car)
        f = f.cdr
    if type(f) is Sym:
        names.append(f)
    return names


def _idefs(body):
    out = []
    for b in body:
        if type(b) is Pair and b.car is S("define") and type(b.cdr) is Pair and type(b.cdr.car) is Sym:
            out.append(b.cdr.car)
    return out


def free_vars(e, skip_qq, bound=frozenset()):
    """free variables of a core expression (lambda if set! define quote quasiquote app)"""
    out = set()

    def walk(e, bound):
        if type(e) is Sym:
            if e not in bound:
                out.add(e)
            return
        if type(e) is not Pair:
            return
        items, tail = _lst(e)
        h = items[0]
        name = h.name if type(h) is Sym and h not in bound else None
        if name == "quote":
            return
        if name == "quasiquote" and len(items) == 2:
            if not skip_qq:
                for u in unquotes(items[1], 1):
                    walk(u, bound)
            return
        if name == "lambda" and len(items) >= 3:
            b2 = bound | set(_formals(items[1])) | set(_idefs(items[2:]))
            for b in items[2:]:
                walk(b, b2)
            return
        if name in ("define", "set!") and len(items) == 3 and type(items[1]) is Sym:
            if name == "set!" and items[1] not in bound:
                out.add(items[1])
            walk(items[2], bound)
            return
        if name == "if":
            for i in items[1:]:
                walk(i, bound)
            return
        for i in items:
            walk(i, bound)
    walk(e, bound)
    return out


def _is2(t, names):
    return (type(t) is Pair and type(t.car) is Sym and t.car.name in names and type(t.cdr) is Pair
            and t.cdr.cdr is NIL)


def unquotes(t, level):
    """the level-1 unquoted expressions of a quasiquote template (also in tail position)"""
    out = []

    def walk(t, level):
        while type(t) is Pair:
            if _is2(t, ("unquote", "unquote-splicing")):
                if level == 1:
                    out.append(t.cdr.car)
                else:
                    walk(t.cdr.car, level - 1)
                return
            if _is2(t, ("quasiquote",)):
                walk(t.cdr.car, level + 1)
                return
            walk(t.car, level)
            t = t.cdr
        if type(t) is Vector:
            for i in t.items:
                walk(i, level)
    walk(t, level)
    return out


def qq_free_var(core):
    """does the expanded program contain a quasiquote whose unquoted expression refers to a
    variable of an enclosing procedure from inside a nested procedure that does not
    otherwise mention the variable?  (environment.rs: the free-symbol analysis returns early
    at quote/quasiquote, so the nested procedure gets no slot for it)"""
    found = []

    def walk(e, stack):
        if type(e) is not Pair:
            return
        items, tail = _lst(e)
        h = items[0]
        name = h.name if type(h) is Sym else None
        if name == "quote":
            return
        if name == "quasiquote" and len(items) == 2:
            for u in unquotes(items[1], 1):
                if stack:
                    inner_bound, inner_fv = stack[-1]
                    for x in free_vars(u, False):
                        if x in inner_bound:
                            continue
                        if any(x in b for b, _ in stack[:-1]) and x not in inner_fv:
                            found.append(x.name)
                walk(u, stack)
            return
        if name == "lambda" and len(items) >= 3:
            bound = set(_formals(items[1])) | set(_idefs(items[2:]))
            fv = set()
            for b in items[2:]:
                fv |= free_vars(b, True)
            for b in items[2:]:
                walk(b, stack + [(bound, fv)])
            return
        for i in items:
            walk(i, stack)
    walk(core, [])
    return found


def _symbols(x, acc):
    stack = [x]
    while stack:
        x = stack.pop()
        if type(x) is Sym:
            acc.add(x.name)
        elif type(x) is Pair:
            stack.append(x.car)
            stack.append(x.cdr)
        elif type(x) is Vector:
            stack.extend(x.items)


def _forms_named(x, names, out):
    """all sub-lists of x whose head is one of the names (not looking inside quote)"""
    stack = [x]
    while stack:
        x = stack.pop()
        if type(x) is Pair:
            if type(x.car) is Sym:
                if x.car.name == "quote":
                    continue
                if x.car.name in names:
                    out.append(x)
            while type(x) is Pair:
                stack.append(x.car)
                x = x.cdr
        elif type(x) is Vector:
            stack.extend(x.items)


def _template_scan(t, level, ids, element=True):
    """classes visible in a quasiquote template"""
    if type(t) is Vector:
        ids.add("qq-vector-shared")
        for i in t.items:
            _template_scan(i, level, ids)
        return
    if type(t) is not Pair:
        return
    if _is2(t, ("quote",)) and element:
        return              # the expansion driver stops at quote
    if _is2(t, ("quasiquote",)):
        _template_scan(t.cdr.car, level + 1, ids)
        return
    if _is2(t, ("unquote", "unquote-splicing")):
        if not element and t.car.name == "unquote":
            ids.add("qq-dotted-unquote")       # (a . ,x) reads as (a unquote x)
        if level > 1:
            _template_scan(t.cdr.car, level - 1, ids)
        else:
            _code_scan(t.cdr.car, ids)
        return
    if element and type(t.car) is Sym and t.car.name in MACROS + ("define-syntax",):
        ids.add("qq-expands-macros")
    _template_scan(t.car, level, ids)
    if t.cdr is not NIL:
        _template_scan(t.cdr, level, ids, element=False)


def _code_scan(x, ids):
    qqs = []
    _forms_named(x, ("quasiquote",), qqs)
    for q in qqs:
        if type(q.cdr) is Pair and q.cdr.cdr is NIL:
            _template_scan(q.cdr.car, 1, ids)


def source_classes(forms):
    """ids of the recorded defect classes whose syntactic pattern occurs in the session"""
    ids = set()
    text = "\n".join(forms)
    if ",@" in text or "unquote-splicing" in text:
        ids.add("unquote-splicing")
    data = []
    for f in forms:
        try:
            data += R.read_all(f)
        except R.ReadError:
            pass
    syms = set()
    for d in data:
        _symbols(d, syms)
    # ---- macro-hygiene: a user variable named like an identifier a prelude template inserts,
    # together with a use of that template; or a user (re)definition of a global it mentions
    uses = []
    for d in data:
        _forms_named(d, ("or", "cond", "case", "unless", "delay", "delay-force", "define", "set!"), uses)
    def has(pred):
        return any(pred(u) for u in uses)
    def nitems(u):
        return len(_lst(u)[0])
    if "var1" in syms and has(lambda u: u.car.name == "or" and nitems(u) >= 3):
        ids.add("macro-hygiene")
    if "temp" in syms and has(lambda u: u.car.name == "cond" and any(
            type(c) is Pair and (nitems(c) == 1 or (nitems(c) == 3 and c.cdr.car is S("=>"))) for c in _lst(u.cdr)[0])):
        ids.add("macro-hygiene")
    if "atom-key" in syms and has(lambda u: u.car.name == "case" and type(u.cdr) is Pair and type(u.cdr.car) is Pair):
        ids.add("macro-hygiene")
    def targets(u):
        if u.car.name not in ("define", "set!") or type(u.cdr) is not Pair:
            return None
        t = u.cdr.car
        if type(t) is Pair:
            t = t.car
        return t.name if type(t) is Sym else None
    redefined = set(targets(u) for u in uses)
    for g, macro in G.PRELUDE_TEMPLATE_GLOBALS.items():
        if g in redefined and (macro in syms or (macro == "delay" and ("delay-force" in syms or "force" in syms))):
            ids.add("macro-hygiene")
    # ---- begin-define: (begin ... (define ...) ...) is ((lambda () ...)): the definition is local to it
    begins = []
    for d in data:
        _forms_named(d, ("begin",), begins)
    for b in begins:
        if any(type(i) is Pair and i.car is S("define") for i in _lst(b.cdr)[0]):
            ids.add("begin-define-toplevel")
    # ---- quasiquote classes
    for d in data:
        _code_scan(d, ids)
    if "quasiquote" in syms:
        for d in data:
            try:
                if qq_free_var(mw_expand(d)):
                    ids.add("qq-free-var")
            except RecursionError:
                pass
    return ids


CLASS_ORDER = ["unquote-splicing", "qq-free-var", "qq-vector-shared", "qq-dotted-unquote", "qq-expands-macros",
               "begin-define-toplevel", "macro-hygiene", "numeric-type-unchecked"]
MODEL_DIFF_IN_KNOWN = []      # (forms, impl, model): known-class cases where the model differs from the code


def known_class(case, impl_line, model_line, allowed=CLASS_ORDER):
    """the id of a recorded class, only when the case really fails AND its source shows the
    class's syntactic pattern"""
    if compare(case, impl_line) is None:
        return None
    ids = source_classes(G.decode(case))
    if set(expected(case)[2]) & {"minus-first-operand-not-a-number", "comparison-of-a-non-number"}:
        ids.add("numeric-type-unchecked")     # dynamic: the reference run applied - or a comparison to a non-number
    for c in CLASS_ORDER:
        if c in ids and c in allowed:
            if model_line is not None and model_line != impl_line and len(MODEL_DIFF_IN_KNOWN) < 50:
                MODEL_DIFF_IN_KNOWN.append((G.decode(case), impl_line, model_line))
            return c
    return None


# --------------------------------------------------------------------- shrinking
def _subterm_variants(d):
    """smaller variants of one datum: a subterm replaces its parent, or becomes a constant"""
    out = []

    def paths(x, path, depth):
        if type(x) is Pair and depth < 12:
            i = 0
            y = x
            while type(y) is Pair:
                paths(y.car, path + [i], depth + 1)
                out.append(path + [i])
                y = y.cdr
                i += 1
    paths(d, [], 0)
    return out


def _get(d, path):
    for i in path:
        for _ in range(i):
            d = d.cdr
        d = d.car
    return d


def _replace(d, path, new):
    if not path:
        return new
    items, tail = _lst(d)
    i = path[0]
    items = list(items)
    items[i] = _replace(items[i], path[1:], new)
    return R.py_to_list(items, tail)


def _delete(d, path):
    items, tail = _lst(_get(d, path[:-1]))
    items = list(items)
    del items[path[-1]]
    return _replace(d, path[:-1], R.py_to_list(items, tail))


def plain_reductions(case, per_form=None):
    """structurally smaller sessions: drop a form, drop a datum, hoist a subterm over its
    parent, delete a list element, replace a compound subterm by 0"""
    forms = G.decode(case)
    n = len(forms)
    out = []
    if n > 1:
        for i in range(n):
            out.append(forms[:i] + forms[i + 1:])
    for fi, f in enumerate(forms):
        try:
            data = R.read_all(f)
        except R.ReadError:
            continue
        if len(data) > 1:
            for j in range(len(data)):
                nf = " ".join(R.show(x) for k, x in enumerate(data) if k != j)
                out.append(forms[:fi] + [nf] + forms[fi + 1:])
        cands = []
        for j, d in enumerate(data):
            for p in sorted(_subterm_variants(d), key=len):
                sub = _get(d, p)
                cands.append((j, _replace(d, p[:-1], sub)))
                if p[-1] > 0:
                    cands.append((j, _delete(d, p)))
                if type(sub) is Pair:
                    cands.append((j, _replace(d, p, 0)))
        if per_form:
            cands = cands[:per_form]
        for j, nd in cands:
            try:
                nf = " ".join(R.show(x if k != j else nd) for k, x in enumerate(data))
            except (R.Limit, R.Unspecified):
                continue
            if nf != f:
                out.append(forms[:fi] + [nf] + forms[fi + 1:])
    seen = set()
    res = []
    for fs in out:
        key = tuple(fs)
        if key not in seen:
            seen.add(key)
            res.append(G.encode(fs, case[0]))
    return res


def reductions(case):
    """candidates for the runner's shrinking.  When the case fails the oracle, the module
    first minimises it itself (same failure kind, still outside the recorded classes,
    smallest candidates first) and offers the result; the runner re-checks it."""
    import common as C
    exe = os.path.join(C.HARNESS, "target", "debug", "mwh")
    cur = case
    if os.path.exists(exe):
        try:
            il = C.run_impl(exe, [case])[0]
            msg = compare(case, il)
            if msg is not None and known_class(case, il, None) is None:
                kind = msg.split(":")[0]
                import time
                t_end = time.time() + 45
                while time.time() < t_end:
                    cands = sorted(plain_reductions(cur), key=len)[:200]
                    if not cands:
                        break
                    lines = C.run_impl(exe, cands)
                    found = None
                    for c, l in zip(cands, lines):
                        m = compare(c, l)
                        if m is not None and m.split(":")[0] == kind and known_class(c, l, None) is None:
                            found = c
                            break
                    if found is None:
                        break
                    cur = found
        except Exception:
            cur = case
    if cur != case:
        yield cur
    for c in plain_reductions(cur, per_form=40)[:63]:
        yield c


def describe(case):
    forms = G.decode(case)
    st, exp = expected(case)[:2]
    return {"iface": "session(70)", "forms": forms, "reference": (st + " " + exp.replace(R.WILD, "<any>"))[:1500]}


def neighbours(case, rng):
    """sessions around a correspondence break: every single-form and prefix sub-session"""
    forms = G.decode(case)
    out = []
    for i in range(1, len(forms) + 1):
        out.append(G.encode(forms[:i], case[0]))
    for i in range(len(forms)):
        out.append(G.encode(forms[:i] + forms[i + 1:], case[0]))
    return out
