#!/usr/bin/env python3
"""Regenerates the tables of DESIGN.md section 10 (between <!-- BEGIN GENERATED:x --> and
<!-- END GENERATED:x --> markers) from what is in the tree: coq/Props/*.v (theorem names and
OPEN statements), known_findings.json (open findings, fixed list) and seeded/*/meta.json."""
import glob, json, os, re, sys
V = os.path.dirname(os.path.dirname(os.path.abspath(__file__)))


def strip_comments(s):
    out, depth, i = [], 0, 0
    while i < len(s):
        if s.startswith("(*", i):
            depth += 1; i += 2
        elif s.startswith("*)", i) and depth:
            depth -= 1; i += 2
        else:
            if not depth:
                out.append(s[i])
            i += 1
    return "".join(out)


def theorems():
    rows = []
    for f in sorted(glob.glob(V + "/coq/Props/C*.v")):
        pid = os.path.basename(f)[:-2]
        src = strip_comments(open(f).read())
        thms = re.findall(r"^\s*Theorem\s+(\w+)", src, re.M)
        opens = re.findall(r"^\s*Definition\s+(\w+_stmt)\b", src, re.M)
        cond = [t for t in thms if re.search(r"Theorem\s+%s\s*:\s*(\w+_stmt)\s*->" % t, src)]
        rows.append((pid, thms, opens, cond))
    return rows


def gen_theorems():
    out = ["| property | theorems checked on every run (`Props/Cxx.v`) | statements kept visible but OPEN (`*_stmt`, not proved) |",
           "|---|---|---|"]
    for pid, thms, opens, cond in theorems():
        names = ", ".join("`%s`" % t.replace(pid + "_", "", 1) for t in thms)
        out.append("| %s | %d: %s | %s |" % (pid, len(thms), names, ", ".join("`%s`" % o for o in opens) or "—"))
    return "\n".join(out)


def gen_findings():
    k = json.load(open(V + "/known_findings.json"))
    out = ["| property | id | what fails | site |", "|---|---|---|---|"]
    for f in sorted(k["findings"], key=lambda f: (f["property"], f["id"])):
        if f.get("status", "open") != "open":
            continue
        out.append("| %s | `%s` | %s | %s |" % (f["property"], f["id"], f["what"].replace("|", "\\|")[:400],
                                               f.get("site", "").replace("|", "\\|")[:120]))
    return "\n".join(out)


def gen_fixed():
    k = json.load(open(V + "/known_findings.json"))
    out = ["| property | commit in /repo | what failed |", "|---|---|---|"]
    for line in k["fixed"]:
        m = re.match(r"fixed: property=(\S+) (\S+) (.*)", line)
        if m:
            out.append("| %s | `%s` | %s |" % (m.group(1), m.group(2), m.group(3).replace("|", "\\|")[:420]))
    return "\n".join(out)


def gen_seeded():
    out = ["| seeded change | property | suite with it | demonstration with / without | check result on /repo with the change applied |",
           "|---|---|---|---|---|"]
    for f in sorted(glob.glob(V + "/seeded/*/meta.json")):
        m = json.load(open(f))
        c = m.get("confirmed", {})
        def short(s):
            mm = re.search(r"(\d+) passed; (\d+) failed", s or "")
            return "%s passed, %s failed" % mm.groups() if mm else (s or "?")
        res = []
        for r in m.get("checks_run", []):
            if r["violations"] and not r["no_failing_input_found"]:
                res.append("%s: VIOLATION with a failing input" % r["check"])
            elif r["violations"]:
                res.append("%s: VIOLATION, no-failing-input-found" % r["check"])
            else:
                res.append("%s: not detected (exit %s)" % (r["check"], r["exit"]))
        hist = m.get("history", "")
        out.append("| `%s` | %s | %s | %s / %s | %s%s |" % (m["name"], m["property"], c.get("suite_with_patch", "?"),
                   short(c.get("demo_with_patch")), short(c.get("demo_without_patch")), "; ".join(res),
                   (" — " + hist) if hist else ""))
    return "\n".join(out)


GEN = {"theorems": gen_theorems, "findings": gen_findings, "fixed": gen_fixed, "seeded": gen_seeded}


def main():
    p = V + "/DESIGN.md"
    s = open(p).read()
    for k, fn in GEN.items():
        a, b = "<!-- BEGIN GENERATED:%s -->" % k, "<!-- END GENERATED:%s -->" % k
        if a in s and b in s:
            i, j = s.index(a) + len(a), s.index(b)
            s = s[:i] + "\n" + fn() + "\n" + s[j:]
    open(p, "w").write(s)


if __name__ == "__main__":
    main()
