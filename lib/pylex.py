"""Independent Python re-statement of marwood's lexical grammar, used only by the
spec oracles that classify disagreements (never as the model, never as a proof)."""

def is_digit(c): return 48 <= c <= 57
def is_hex(c): return is_digit(c) or 65 <= c <= 70 or 97 <= c <= 102
def is_aalpha(c): return 65 <= c <= 90 or 97 <= c <= 122
def is_initial_identifier(c):
    if c > 0xFF: return True
    if is_aalpha(c) or c in (0xAA, 0xB5, 0xBA) or 0xC0 <= c <= 0xD6 or 0xD8 <= c <= 0xF6 or 0xF8 <= c <= 0xFF:
        return True
    return chr(c) in "!$%&*/\\:<=>?^_~"
def is_subsequent_identifier(c): return is_initial_identifier(c) or is_digit(c) or chr(c) in "+-.@;"
def is_initial_number(c): return is_digit(c) or c in (43, 45)
def is_subsequent_number(c): return is_hex(c) or c in (46, 47)
def is_ws(c): return 9 <= c <= 13 or c in (32, 0x85, 0xA0)
def u8(c): return 1 if c < 0x80 else 2 if c < 0x800 else 3 if c < 0x10000 else 4


def scan(cps):
    """returns ('OK', [(start,end,type)]) or ('ERR', 'incomplete'|'other')"""
    offs, o = [], 0
    for c in cps:
        offs.append(o); o += u8(c)
    offs.append(o)
    n, i, toks = len(cps), 0, []
    while i < n:
        c, s = cps[i], i
        ch = chr(c)
        if ch in "([{": toks.append((offs[s], offs[s + 1], "LeftParen")); i += 1
        elif ch in ")]}": toks.append((offs[s], offs[s + 1], "RightParen")); i += 1
        elif ch == "'": toks.append((offs[s], offs[s + 1], "SingleQuote")); i += 1
        elif ch == "`": toks.append((offs[s], offs[s + 1], "Quasiquote")); i += 1
        elif ch == ",": toks.append((offs[s], offs[s + 1], "Unquote")); i += 1
        elif ch == "#":
            if i + 1 >= n: return ("ERR", "other")
            d = chr(cps[i + 1])
            if d == "t": toks.append((offs[s], offs[s] + 2, "True")); i += 2
            elif d == "f": toks.append((offs[s], offs[s] + 2, "False")); i += 2
            elif d == "(": toks.append((offs[s], offs[s] + 2, "HashParen")); i += 2
            elif d in "eibodx": toks.append((offs[s], offs[s] + 2, "NumberPrefix")); i += 2
            elif d == "\\":
                if i + 2 >= n: return ("ERR", "incomplete")
                j = i + 3
                if is_aalpha(cps[i + 2]):
                    while j < n and (is_aalpha(cps[j]) or is_digit(cps[j])): j += 1
                toks.append((offs[s], offs[j], "Char")); i = j
            else: return ("ERR", "other")
        elif ch == ".":
            j = i + 1
            ty = "Dot"
            if j < n:
                ty = "Number" if is_subsequent_number(cps[j]) else "Symbol" if is_subsequent_identifier(cps[j]) else "Dot"
            while j < n:
                if cps[j] == 46: ty = "Symbol"
                ok = is_subsequent_identifier(cps[j]) if ty == "Symbol" else is_subsequent_number(cps[j]) if ty == "Number" else False
                if not ok: break
                j += 1
            toks.append((offs[s], offs[j], ty)); i = j
        elif ch == '"':
            j, esc, done = i + 1, False, False
            while j < n:
                if cps[j] == 34 and not esc: done = True; break
                esc = (cps[j] == 92 and not esc); j += 1
            if not done: return ("ERR", "incomplete")
            toks.append((offs[s], offs[j + 1], "String")); i = j + 1
        elif is_initial_identifier(c):
            j = i + 1
            while j < n and is_subsequent_identifier(cps[j]): j += 1
            toks.append((offs[s], offs[j], "Symbol")); i = j
        elif is_initial_number(c):
            j, ty = i + 1, "Number"
            while j < n:
                if is_subsequent_number(cps[j]): pass
                elif is_subsequent_identifier(cps[j]) and cps[j] != 59: ty = "Symbol"
                else: break
                j += 1
            toks.append((offs[s], offs[j], ty)); i = j
        elif ch == ";":
            j = i
            while j < n and cps[j] != 10: j += 1
            i = min(n, j + 1)
        elif is_ws(c): i += 1
        else: return ("ERR", "other")
    return ("OK", toks)


def unesc(s):
    """inverse of the canonical \\u{..} escaping -> list of code points"""
    out, i = [], 0
    while i < len(s):
        if s[i] == "\\" and s[i + 1:i + 3] == "u{":
            j = s.index("}", i)
            out.append(int(s[i + 3:j], 16)); i = j + 1
        else:
            out.append(ord(s[i])); i += 1
    return out
