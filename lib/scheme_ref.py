"""scheme_ref.py — an independent reference interpreter for the R7RS subset of properties
C01 (evaluation), C02 (lexical scoping) and C05 (first-class continuations).

Written from the R7RS-small report (sections 4.1 primitive expression types, 4.2 derived
expression types, 5.3 definitions, 6.x standard procedures), NOT from marwood's sources:
derived forms are given their meaning directly, never by macro expansion, so that the
prelude's macros are checked against something they were not copied from.

Machine: a CEK machine (control = expression or value, environment = chain of frames of
mutable locations, continuation = immutable linked list of frames).  Because frames are
never mutated, a captured continuation can be re-entered any number of times, after its
extent and from a later top-level form (it then finishes the captured computation and
the value reaches the top level of the form that invoked it).

Choices that R7RS leaves open are explicit (class Config):
  operand order        left to right (the property fixes it)
  operator position    evaluated LAST (marwood's choice; R7RS leaves it open)
  let / named-let inits, map callbacks, quasiquote unquotes: left to right
  eq? on numbers/chars = eqv? (implementation-dependent in R7RS)
  when/unless          value of the last expression (R7RS 7.3 derived form)
Where R7RS says "unspecified value" the machine produces UNSPEC, printed as a wildcard;
where R7RS says "it is an error" without requiring it to be signalled AND implementations
legitimately differ (reading a letrec variable before initialisation, force of a
non-promise, set! of an unbound variable, testing an unspecified value, mutation of a
literal, duplicate formals...) the machine raises Unspecified: the session is skipped
and counted, never compared.

Results per datum are the canonical results of wire interface 70:
   OK <write form> | ERR | ERR user <irritants> | ERR incomplete
"""
import sys

# --------------------------------------------------------------------------- data

class Sym(object):
    __slots__ = ("name",)
    table = {}

    def __init__(self, name):
        self.name = name

    def __repr__(self):
        return self.name


def S(name):
    s = Sym.table.get(name)
    if s is None:
        s = Sym.table[name] = Sym(name)
    return s


class Char(object):
    __slots__ = ("cp",)

    def __init__(self, cp):
        self.cp = cp


class MString(object):
    __slots__ = ("s", "literal")

    def __init__(self, s, literal=False):
        self.s = s
        self.literal = literal


class Pair(object):
    __slots__ = ("car", "cdr", "literal")

    def __init__(self, car, cdr, literal=False):
        self.car = car
        self.cdr = cdr
        self.literal = literal


class NilT(object):
    __slots__ = ()

    def __repr__(self):
        return "()"


NIL = NilT()


class Vector(object):
    __slots__ = ("items", "literal")

    def __init__(self, items, literal=False):
        self.items = items
        self.literal = literal


class UnspecT(object):
    __slots__ = ()


UNSPEC = UnspecT()          # "an unspecified value"


class UnassignedT(object):
    __slots__ = ()


UNASSIGNED = UnassignedT()  # letrec / internal-definition location before initialisation
MISSING = UnassignedT()     # absent else branch


class Lambda(object):
    """a checked lambda expression: required formals, rest formal, body"""
    __slots__ = ("req", "rest", "body", "name", "nreq")

    def __init__(self, req, rest, body, name=None):
        self.req, self.rest, self.body, self.name, self.nreq = req, rest, body, name, len(req)


class Closure(object):
    __slots__ = ("lam", "env")

    def __init__(self, lam, env):
        self.lam, self.env = lam, env


class Primitive(object):
    __slots__ = ("name", "fn", "lo", "hi", "special")

    def __init__(self, name, fn, lo, hi, special=None):
        self.name, self.fn, self.lo, self.hi, self.special = name, fn, lo, hi, special


class Continuation(object):
    __slots__ = ("k", "serial")

    def __init__(self, k, serial=0):
        self.k = k
        self.serial = serial      # number of the top-level datum during which it was captured


class Promise(object):
    """R7RS 4.2.5: box = [done?, value-or-thunk]; boxes are shared by delay-force chains"""
    __slots__ = ("box",)

    def __init__(self, done, value):
        self.box = [done, value]


class Env(object):
    __slots__ = ("vars", "parent")

    def __init__(self, vars, parent):
        self.vars, self.parent = vars, parent


# ------------------------------------------------------------------------- outcomes

class SchemeError(Exception):
    """an error R7RS implementations signal: unbound variable, wrong type, wrong arity,
    application of a non-procedure, bad syntax"""


class UserError(Exception):
    def __init__(self, payload):
        Exception.__init__(self, "user")
        self.payload = payload


class Unspecified(Exception):
    """behaviour R7RS leaves open: the session is not compared"""


class Limit(Exception):
    """step / size limit of the reference machine"""


class ReadError(Exception):
    def __init__(self, incomplete=False, msg=""):
        Exception.__init__(self, msg)
        self.incomplete = incomplete


class Config(object):
    def __init__(self, operator="last", max_steps=200000, max_print=20000, eq_numbers_eqv=True):
        assert operator in ("first", "last")
        self.operator = operator
        self.max_steps = max_steps
        self.max_print = max_print
        self.eq_numbers_eqv = eq_numbers_eqv


# --------------------------------------------------------------------------- reader

DELIMS = set(" \t\n\r()[]{}\";'`,")
OPEN = {"(": ")", "[": "]", "{": "}"}
CHAR_NAMES = {"space": 32, "newline": 10, "tab": 9, "nul": 0, "null": 0, "return": 13, "delete": 127,
              "escape": 27, "backspace": 8, "alarm": 7, "altmode": 27, "rubout": 127}


class Reader(object):
    def __init__(self, text):
        self.t = text
        self.i = 0

    def skip(self):
        t, n = self.t, len(self.t)
        while self.i < n:
            c = t[self.i]
            if c in " \t\n\r\f\v":
                self.i += 1
            elif c == ";":
                while self.i < n and t[self.i] != "\n":
                    self.i += 1
            else:
                break

    def at_end(self):
        self.skip()
        return self.i >= len(self.t)

    def read(self):
        self.skip()
        t = self.t
        if self.i >= len(t):
            raise ReadError(True, "eof")
        c = t[self.i]
        if c in OPEN:
            self.i += 1
            return self.read_list(OPEN[c])
        if c in ")]}":
            raise ReadError(False, "unexpected close")
        if c == "'":
            self.i += 1
            return Pair(S("quote"), Pair(self.read(), NIL, True), True)
        if c == "`":
            self.i += 1
            return Pair(S("quasiquote"), Pair(self.read(), NIL, True), True)
        if c == ",":
            self.i += 1
            if self.i < len(t) and t[self.i] == "@":
                self.i += 1
                return Pair(S("unquote-splicing"), Pair(self.read(), NIL, True), True)
            return Pair(S("unquote"), Pair(self.read(), NIL, True), True)
        if c == '"':
            return self.read_string()
        if c == "#":
            if t.startswith("#(", self.i):
                self.i += 2
                lst = self.read_list(")")
                items = []
                while type(lst) is Pair:
                    items.append(lst.car)
                    lst = lst.cdr
                if lst is not NIL:
                    raise ReadError(False, "dotted vector")
                return Vector(items, True)
            if t.startswith("#\\", self.i):
                j = self.i + 2
                if j >= len(t):
                    raise ReadError(True, "char")
                k = j + 1
                while k < len(t) and t[k] not in DELIMS:
                    k += 1
                name = t[j:k]
                self.i = k
                if len(name) == 1:
                    return Char(ord(name))
                if name in CHAR_NAMES:
                    return Char(CHAR_NAMES[name])
                if name[0] == "x":
                    try:
                        return Char(int(name[1:], 16))
                    except ValueError:
                        pass
                raise ReadError(False, "bad char")
        j = self.i
        while j < len(t) and t[j] not in DELIMS:
            j += 1
        tok = t[self.i:j]
        self.i = j
        if tok in ("#t", "#true"):
            return True
        if tok in ("#f", "#false"):
            return False
        if tok == ".":
            raise ReadError(False, "dot")
        body = tok[1:] if tok[0] in "+-" else tok
        if body and body.isdigit() and body.isascii():
            return int(tok)
        if tok[0] == "#":
            raise ReadError(False, "unsupported # syntax in the reference reader: " + tok)
        return S(tok)

    def read_list(self, close):
        items = []
        tail = NIL
        while True:
            self.skip()
            if self.i >= len(self.t):
                raise ReadError(True, "eof in list")
            c = self.t[self.i]
            if c in ")]}":
                self.i += 1
                if c != close:
                    raise ReadError(False, "mismatched bracket")
                break
            if c == "." and (self.i + 1 >= len(self.t) or self.t[self.i + 1] in DELIMS):
                if not items:
                    raise ReadError(False, "dot first")
                self.i += 1
                tail = self.read()
                self.skip()
                if self.i >= len(self.t):
                    raise ReadError(True, "eof after dot")
                if self.t[self.i] != close:
                    raise ReadError(False, "more than one datum after dot")
                self.i += 1
                break
            items.append(self.read())
        for x in reversed(items):
            tail = Pair(x, tail, True)
        return tail

    def read_string(self):
        t = self.t
        j = self.i + 1
        out = []
        while True:
            if j >= len(t):
                raise ReadError(True, "string")
            c = t[j]
            if c == '"':
                break
            if c == "\\":
                j += 1
                if j >= len(t):
                    raise ReadError(True, "string")
                e = t[j]
                if e == "n":
                    out.append("\n")
                elif e == "t":
                    out.append("\t")
                elif e == "r":
                    out.append("\r")
                elif e == "a":
                    out.append("\a")
                elif e in '"\\':
                    out.append(e)
                elif e == "x":
                    k = t.find(";", j)
                    if k < 0:
                        raise ReadError(False, "hex escape")
                    out.append(chr(int(t[j + 1:k], 16)))
                    j = k
                else:
                    raise ReadError(False, "string escape")
            else:
                out.append(c)
            j += 1
        self.i = j + 1
        return MString("".join(out), True)


def read_all(text):
    r = Reader(text)
    out = []
    while not r.at_end():
        out.append(r.read())
    return out


# -------------------------------------------------------------------------- printer

WILD = "\x01"          # stands for one datum of any shape (unspecified value, promise representation)
PROC = "#<procedure"   # only this prefix of a procedure's printed form is compared

_CHAR_WRITE = {32: "space", 10: "newline", 9: "tab", 0: "null", 13: "return", 127: "delete", 27: "escape",
               8: "backspace", 7: "alarm"}


def _write_string(s):
    out = ['"']
    for ch in s:
        if ch == '"':
            out.append('\\"')
        elif ch == "\\":
            out.append("\\\\")
        elif ch == "\n":
            out.append("\\n")
        elif ch == "\t":
            out.append("\\t")
        elif ch == "\r":
            out.append("\\r")
        else:
            out.append(ch)
    out.append('"')
    return "".join(out)


def show(x, write=True, budget=20000):
    """written (write=True) or displayed form; iterative over cdr chains, bounded in size
    so that cyclic data cannot hang the oracle (-> Limit)"""
    out = []
    count = [0]

    def rec(x, depth):
        count[0] += 1
        if count[0] > budget or depth > 400:
            raise Limit("print")
        t = type(x)
        if t is bool:
            out.append("#t" if x else "#f")
        elif t is int:
            out.append(str(x))
        elif t is Sym:
            out.append(x.name)
        elif t is Pair:
            if x.car is Q_QUOTE and type(x.cdr) is Pair and x.cdr.cdr is NIL:
                out.append("'")
                rec(x.cdr.car, depth + 1)
                return
            out.append("(")
            first = True
            while True:
                if not first:
                    out.append(" ")
                first = False
                rec(x.car, depth + 1)
                x = x.cdr
                count[0] += 1
                if count[0] > budget:
                    raise Limit("print")
                if type(x) is Pair:
                    continue
                if x is NIL:
                    break
                if type(x) is Promise:
                    raise Unspecified("a promise in tail position of a printed pair exposes its representation")
                out.append(" . ")
                rec(x, depth + 1)
                break
            out.append(")")
        elif x is NIL:
            out.append("()")
        elif t is MString:
            out.append(_write_string(x.s) if write else x.s)
        elif t is Char:
            if write:
                out.append("#\\" + (_CHAR_WRITE.get(x.cp) or chr(x.cp)))
            else:
                out.append(chr(x.cp))
        elif t is Vector:
            out.append("#(")
            for i, e in enumerate(x.items):
                if i:
                    out.append(" ")
                rec(e, depth + 1)
            out.append(")")
        elif t is Closure or t is Primitive or t is Continuation:
            out.append(PROC)
        elif x is UNSPEC or t is Promise or x is UNASSIGNED:
            out.append(WILD)
        else:
            out.append("#<unknown>")
    rec(x, 0)
    return "".join(out)


def esc(s):
    """the harness's esc(): printable ASCII except backslash verbatim, the rest \\u{hex}"""
    out = []
    for ch in s:
        o = ord(ch)
        if 32 <= o < 127 and ch != "\\" or ch == WILD:
            out.append(ch)
        else:
            out.append("\\u{%x}" % o)
    return "".join(out)


# ------------------------------------------------------------------- syntax helpers

Q_QUOTE, Q_QUASI, Q_UNQUOTE, Q_SPLICE = S("quote"), S("quasiquote"), S("unquote"), S("unquote-splicing")
S_ELSE, S_ARROW, S_DEFINE, S_BEGIN, S_LAMBDA = S("else"), S("=>"), S("define"), S("begin"), S("lambda")

SPECIAL_NAMES = ["quote", "quasiquote", "lambda", "define", "set!", "if", "let", "let*", "letrec", "letrec*",
                 "begin", "cond", "case", "and", "or", "when", "unless", "delay", "delay-force"]
SPECIAL = dict((S(n), n) for n in SPECIAL_NAMES)
# names that are syntactic keywords of the subset (never usable as variables by the generators)
KEYWORDS = set(SPECIAL_NAMES) | {"else", "=>", "unquote", "unquote-splicing", "define-syntax", "syntax-rules", "do",
                                 "case-lambda", "let-values", "let*-values", "define-values", "parameterize", "guard",
                                 "let-syntax", "letrec-syntax", "include", "cond-expand", "define-record-type", "..."}


def list_to_py(x, what="list"):
    out = []
    while type(x) is Pair:
        out.append(x.car)
        x = x.cdr
    if x is not NIL:
        raise SchemeError("bad syntax: improper " + what)
    return out


def py_to_list(items, tail=NIL):
    for x in reversed(items):
        tail = Pair(x, tail)
    return tail


def length_of(x):
    n = 0
    while type(x) is Pair:
        n += 1
        x = x.cdr
    return n if x is NIL else -1


# ------------------------------------------------------------------ continuation tags
(K_IF, K_DEFINE, K_SET, K_SEQ, K_ARGS, K_CALL, K_OPERATOR, K_LET, K_LETSTAR, K_LETREC, K_LETRECSTAR, K_COND, K_COND_ARROW,
 K_CASE, K_CASE_ARROW, K_AND, K_OR, K_WHEN, K_QQ_CDR, K_QQ_CONS, K_QQ_WRAP, K_QQ_VEC, K_QQ_SPLICE, K_QQ_APPEND,
 K_FORCE, K_MAP, K_FOREACH, K_DELAY_DONE) = range(28)


class Machine(object):
    def __init__(self, config=None):
        self.cfg = config or Config()
        self.globals = {}
        self.genv = Env(self.globals, None)
        self.log = []            # "D:..." / "W:..." entries (unescaped text)
        self.steps = 0
        self.lam_cache = {}
        self.kw_shadow = False   # some binding construct bound a keyword name
        self.events = set()      # noteworthy dynamic situations (used to classify findings)
        self.serial = 0          # top-level datum counter
        install_primitives(self)

    # ----------------------------------------------------------------- environments
    def lookup(self, sym, env):
        e = env
        while e is not None:
            v = e.vars.get(sym, MISSING)
            if v is not MISSING:
                if v is UNASSIGNED:
                    raise Unspecified("variable %s read before its initialisation" % sym.name)
                return v
            e = e.parent
        raise SchemeError("unbound variable " + sym.name)

    def is_bound(self, sym, env):
        e = env
        while e is not None:
            if sym in e.vars:
                return True
            e = e.parent
        return False

    def assign(self, sym, env, val):
        e = env
        while e is not None:
            if sym in e.vars:
                e.vars[sym] = val
                return
            e = e.parent
        raise Unspecified("set! of the unbound variable %s (R7RS: it is an error)" % sym.name)

    # ---------------------------------------------------------------------- lambda
    def make_lambda(self, formals, body, name=None):
        key = (id(formals), id(body))
        lam = self.lam_cache.get(key)
        if lam is not None and lam[0] is formals and lam[1] is body:
            return lam[2]
        req = []
        f = formals
        while type(f) is Pair:
            if type(f.car) is not Sym:
                raise SchemeError("bad syntax: formal is not an identifier")
            req.append(f.car)
            f = f.cdr
        rest = None
        if f is not NIL:
            if type(f) is not Sym:
                raise SchemeError("bad syntax: rest formal is not an identifier")
            rest = f
        names = req + ([rest] if rest else [])
        if len(set(names)) != len(names):
            raise Unspecified("duplicate formal (R7RS: it is an error)")
        for n in names:
            if n.name in KEYWORDS:
                self.kw_shadow = True
        if type(body) is not Pair or length_of(body) < 1:
            raise SchemeError("bad syntax: empty or improper body")
        l = Lambda(req, rest, body, name)
        self.lam_cache[key] = (formals, body, l)
        return l

    def body_defines(self, body, env):
        """names introduced by the definitions at the head of a body (begin splices)"""
        key = ("defs", id(body))
        c = self.lam_cache.get(key)
        if c is not None and c[0] is body:
            return c[1]
        names = []

        def scan(forms):
            while type(forms) is Pair:
                f = forms.car
                if type(f) is Pair and f.car is S_DEFINE and type(f.cdr) is Pair:
                    tgt = f.cdr.car
                    if type(tgt) is Pair:
                        tgt = tgt.car
                    if type(tgt) is Sym and tgt not in names:
                        names.append(tgt)
                elif type(f) is Pair and f.car is S_BEGIN:
                    scan(f.cdr)
                forms = forms.cdr
        scan(body)
        self.lam_cache[key] = (body, names)
        return names

    # --------------------------------------------------------------- syntax check
    def check_syntax(self, x):
        """A whole datum is checked before any of it runs, as every implementation that expands
        or compiles a form before executing it does: a malformed special form anywhere in it
        (executed or not) is an error of the datum.  A syntactic keyword in a variable position
        is left unspecified.  Skipped once the program has bound a keyword name itself."""
        stack = [x]
        while stack:
            if self.kw_shadow:
                return
            x = stack.pop()
            t = type(x)
            if t is Sym:
                if x.name in KEYWORDS and not self.is_bound(x, self.genv):
                    raise Unspecified("a syntactic keyword used as an expression")
                continue
            if t is not Pair:
                if x is NIL:
                    raise SchemeError("bad syntax: () is not an expression")
                continue
            head = x.car
            sf = SPECIAL.get(head) if type(head) is Sym else None
            n = length_of(x.cdr)
            if n < 0:
                raise SchemeError("bad syntax: improper form")
            args = list_to_py(x.cdr)
            if sf is None:
                stack.append(head)
                stack.extend(args)
            elif sf == "quote":
                if n != 1:
                    raise SchemeError("bad syntax: quote")
            elif sf == "quasiquote":
                if n != 1:
                    raise SchemeError("bad syntax: quasiquote")
                stack.extend(self.template_unquotes(args[0], 1))
            elif sf == "if":
                if n not in (2, 3):
                    raise SchemeError("bad syntax: if")
                stack.extend(args)
            elif sf == "define":
                if n < 1:
                    raise SchemeError("bad syntax: define")
                if type(args[0]) is Pair:
                    if type(args[0].car) is not Sym or n < 2:
                        raise SchemeError("bad syntax: define")
                    self.check_formals(args[0].cdr)
                    stack.extend(args[1:])
                elif type(args[0]) is Sym and n == 2:
                    stack.append(args[1])
                else:
                    raise SchemeError("bad syntax: define")
            elif sf == "set!":
                if n != 2 or type(args[0]) is not Sym:
                    raise SchemeError("bad syntax: set!")
                stack.append(args[1])
            elif sf == "lambda":
                if n < 2:
                    raise SchemeError("bad syntax: lambda")
                self.check_formals(args[0])
                stack.extend(args[1:])
            elif sf in ("let", "let*", "letrec", "letrec*"):
                if sf == "let" and n >= 1 and type(args[0]) is Sym:
                    args = args[1:]
                    n -= 1
                if n < 2:
                    raise SchemeError("bad syntax: " + sf)
                names, inits = self.bindings(args[0])
                stack.extend(inits)
                stack.extend(args[1:])
            elif sf == "cond":
                if n == 0:
                    raise SchemeError("bad syntax: cond")
                self.check_cond(x.cdr)
                for cl in args:
                    for e in list_to_py(cl):
                        if e is not S_ELSE and e is not S_ARROW:
                            stack.append(e)
            elif sf == "case":
                if n < 2:
                    raise SchemeError("bad syntax: case")
                self.check_case(x.cdr.cdr)
                stack.append(args[0])
                for cl in args[1:]:
                    for e in list_to_py(cl.cdr):
                        if e is not S_ARROW:
                            stack.append(e)
            elif sf in ("when", "unless"):
                if n < 2:
                    raise SchemeError("bad syntax: " + sf)
                stack.extend(args)
            elif sf in ("delay", "delay-force"):
                if n != 1:
                    raise SchemeError("bad syntax: " + sf)
                stack.extend(args)
            else:       # begin, and, or
                stack.extend(args)

    def check_formals(self, f):
        while type(f) is Pair:
            if type(f.car) is not Sym:
                raise SchemeError("bad syntax: formal is not an identifier")
            f = f.cdr
        if f is not NIL and type(f) is not Sym:
            raise SchemeError("bad syntax: rest formal is not an identifier")

    def template_unquotes(self, t, level):
        out = []
        stack = [(t, level)]
        while stack:
            t, level = stack.pop()
            while type(t) is Pair:
                h = t.car
                if type(h) is Sym and type(t.cdr) is Pair and t.cdr.cdr is NIL and h in (Q_UNQUOTE, Q_SPLICE, Q_QUASI):
                    if h is Q_QUASI:
                        stack.append((t.cdr.car, level + 1))
                    elif level == 1:
                        out.append(t.cdr.car)
                    else:
                        stack.append((t.cdr.car, level - 1))
                    t = NIL
                    break
                stack.append((h, level))
                t = t.cdr
            if type(t) is Vector:
                for i in t.items:
                    stack.append((i, level))
        return out

    # ------------------------------------------------------------------------ run
    def eval_toplevel(self, expr):
        """evaluate one top-level datum in the global environment; returns the value"""
        self.serial += 1
        self.check_syntax(expr)
        return self.run(expr, self.genv, None)

    def run(self, expr, env, k):
        cfg = self.cfg
        max_steps = cfg.max_steps
        op_last = cfg.operator == "last"
        steps = self.steps
        ev = True
        val = None
        genv = self.genv
        try:
            while True:
                steps += 1
                if steps > max_steps:
                    raise Limit("steps")
                if ev:
                    t = type(expr)
                    if t is Sym:
                        e = env
                        while True:
                            val = e.vars.get(expr, MISSING)
                            if val is not MISSING:
                                break
                            e = e.parent
                            if e is None:
                                if expr.name in KEYWORDS:
                                    raise Unspecified("a syntactic keyword used as an expression")
                                raise SchemeError("unbound variable " + expr.name)
                        if val is UNASSIGNED:
                            raise Unspecified("variable %s read before its initialisation" % expr.name)
                        ev = False
                        continue
                    if t is not Pair:
                        if expr is NIL:
                            raise SchemeError("bad syntax: () is not an expression")
                        val = expr
                        ev = False
                        continue
                    head = expr.car
                    sf = SPECIAL.get(head) if type(head) is Sym else None
                    if sf is not None and self.kw_shadow and self.is_bound(head, env):
                        sf = None
                    if sf is None:
                        # ---- procedure call: operands left to right; operator first or last
                        rands = expr.cdr
                        if op_last:
                            if rands is NIL:
                                k = (K_CALL, k, ())
                                expr = head
                            elif type(rands) is Pair:
                                k = (K_ARGS, k, rands.cdr, (), env, head)
                                expr = rands.car
                            else:
                                raise SchemeError("bad syntax: improper application")
                        else:
                            k = (K_OPERATOR, k, rands, env)
                            expr = head
                        continue
                    args = expr.cdr
                    n = length_of(args)
                    if n < 0:
                        raise SchemeError("bad syntax: improper special form")
                    if sf == "quote":
                        if n != 1:
                            raise SchemeError("bad syntax: quote")
                        val = args.car
                        ev = False
                    elif sf == "if":
                        if n == 2:
                            k = (K_IF, k, args.cdr.car, MISSING, env)
                        elif n == 3:
                            k = (K_IF, k, args.cdr.car, args.cdr.cdr.car, env)
                        else:
                            raise SchemeError("bad syntax: if")
                        expr = args.car
                    elif sf == "define":
                        if n < 1:
                            raise SchemeError("bad syntax: define")
                        tgt = args.car
                        if type(tgt) is Pair:
                            name = tgt.car
                            if type(name) is not Sym:
                                raise SchemeError("bad syntax: define")
                            lam = self.make_lambda(tgt.cdr, args.cdr, name)
                            self.define(name, env, Closure(lam, env))
                            val = UNSPEC
                            ev = False
                        elif type(tgt) is Sym:
                            if n != 2:
                                raise SchemeError("bad syntax: define")
                            k = (K_DEFINE, k, tgt, env)
                            expr = args.cdr.car
                        else:
                            raise SchemeError("bad syntax: define")
                    elif sf == "set!":
                        if n != 2 or type(args.car) is not Sym:
                            raise SchemeError("bad syntax: set!")
                        k = (K_SET, k, args.car, env)
                        expr = args.cdr.car
                    elif sf == "lambda":
                        if n < 2:
                            raise SchemeError("bad syntax: lambda")
                        val = Closure(self.make_lambda(args.car, args.cdr), env)
                        ev = False
                    elif sf == "begin":
                        if n == 0:
                            raise Unspecified("empty begin")
                        if n > 1:
                            k = (K_SEQ, k, args.cdr, env)
                        expr = args.car
                    elif sf == "let":
                        if n >= 1 and type(args.car) is Sym:
                            # named let
                            if n < 3:
                                raise SchemeError("bad syntax: named let")
                            names, inits = self.bindings(args.cdr.car)
                            tag = args.car
                            if tag.name in KEYWORDS:
                                self.kw_shadow = True
                            lam = self.make_lambda(py_to_list(names), args.cdr.cdr, tag)
                            if len(set(names)) != len(names):
                                raise Unspecified("duplicate let variable")
                            if not inits:
                                tenv = Env({tag: UNASSIGNED}, env)
                                clo = Closure(lam, tenv)
                                tenv.vars[tag] = clo
                                expr, env, k, val, ev = self.apply(clo, (), k)
                            else:
                                k = (K_LET, k, ("named", tag, lam), tuple(inits[1:]), (), env)
                                expr = inits[0]
                        else:
                            if n < 2:
                                raise SchemeError("bad syntax: let")
                            names, inits = self.bindings(args.car)
                            if len(set(names)) != len(names):
                                raise Unspecified("duplicate let variable")
                            body = args.cdr
                            if not inits:
                                env = Env({}, env)
                                expr, env, k = self.enter_body(body, env, k)
                            else:
                                k = (K_LET, k, ("let", tuple(names), body), tuple(inits[1:]), (), env)
                                expr = inits[0]
                    elif sf == "let*":
                        if n < 2:
                            raise SchemeError("bad syntax: let*")
                        names, inits = self.bindings(args.car)
                        if not names:
                            expr, env, k = self.enter_body(args.cdr, Env({}, env), k)
                        else:
                            k = (K_LETSTAR, k, names[0], tuple(zip(names[1:], inits[1:])), args.cdr, env)
                            expr = inits[0]
                    elif sf == "letrec" or sf == "letrec*":
                        if n < 2:
                            raise SchemeError("bad syntax: letrec")
                        names, inits = self.bindings(args.car)
                        if len(set(names)) != len(names):
                            raise Unspecified("duplicate letrec variable")
                        env = Env(dict((nm, UNASSIGNED) for nm in names), env)
                        if not names:
                            expr, env, k = self.enter_body(args.cdr, env, k)
                        elif sf == "letrec":
                            k = (K_LETREC, k, tuple(names), tuple(inits[1:]), (), args.cdr, env)
                            expr = inits[0]
                        else:
                            k = (K_LETRECSTAR, k, names[0], tuple(zip(names[1:], inits[1:])), args.cdr, env)
                            expr = inits[0]
                    elif sf == "cond":
                        if n == 0:
                            raise SchemeError("bad syntax: cond without clauses")
                        self.check_cond(args)
                        expr, env, k, val, ev = self.cond_step(args, env, k)
                    elif sf == "case":
                        if n < 2:
                            raise SchemeError("bad syntax: case")
                        self.check_case(args.cdr)
                        k = (K_CASE, k, args.cdr, env)
                        expr = args.car
                    elif sf == "and":
                        if n == 0:
                            val = True
                            ev = False
                        else:
                            if n > 1:
                                k = (K_AND, k, args.cdr, env)
                            expr = args.car
                    elif sf == "or":
                        if n == 0:
                            val = False
                            ev = False
                        else:
                            if n > 1:
                                k = (K_OR, k, args.cdr, env)
                            expr = args.car
                    elif sf == "when" or sf == "unless":
                        if n < 2:
                            raise SchemeError("bad syntax: when/unless")
                        k = (K_WHEN, k, sf == "when", args.cdr, env)
                        expr = args.car
                    elif sf == "delay":
                        if n != 1:
                            raise SchemeError("bad syntax: delay")
                        val = Promise(False, ("delay", args.car, env))
                        ev = False
                    elif sf == "delay-force":
                        if n != 1:
                            raise SchemeError("bad syntax: delay-force")
                        val = Promise(False, ("delay-force", args.car, env))
                        ev = False
                    elif sf == "quasiquote":
                        if n != 1:
                            raise SchemeError("bad syntax: quasiquote")
                        expr, env, k, val, ev = self.qq(args.car, 1, env, k)
                    else:
                        raise SchemeError("unknown special form")
                    continue

                # ------------------------------------------------ return val to k
                if k is None:
                    return val
                tag = k[0]
                if tag == K_ARGS:
                    _, kk, rest, vals, env, fexpr = k
                    vals = vals + (val,)
                    if type(rest) is Pair:
                        k = (K_ARGS, kk, rest.cdr, vals, env, fexpr)
                        expr = rest.car
                        ev = True
                    elif rest is NIL:
                        if op_last:
                            k = (K_CALL, kk, vals)
                            expr = fexpr
                            ev = True
                        else:
                            k = kk
                            expr, env, k, val, ev = self.apply(fexpr, vals, k)
                    else:
                        raise SchemeError("bad syntax: improper application")
                elif tag == K_CALL:
                    expr, env, k, val, ev = self.apply(val, k[2], k[1])
                elif tag == K_OPERATOR:
                    _, kk, rands, env = k
                    if rands is NIL:
                        expr, env, k, val, ev = self.apply(val, (), kk)
                    elif type(rands) is Pair:
                        k = (K_ARGS, kk, rands.cdr, (), env, val)
                        expr = rands.car
                        ev = True
                    else:
                        raise SchemeError("bad syntax: improper application")
                elif tag == K_SEQ:
                    _, kk, rest, env = k
                    if rest.cdr is NIL:
                        k = kk
                    else:
                        k = (K_SEQ, kk, rest.cdr, env)
                    expr = rest.car
                    ev = True
                elif tag == K_IF:
                    _, k, th, el, env = k
                    if val is UNSPEC:
                        raise Unspecified("test on an unspecified value")
                    if val is not False:
                        expr = th
                        ev = True
                    elif el is MISSING:
                        val = UNSPEC
                    else:
                        expr = el
                        ev = True
                elif tag == K_DEFINE:
                    _, k, name, denv = k
                    if type(val) is Closure and val.lam.name is None:
                        pass
                    self.define(name, denv, val)
                    val = UNSPEC
                elif tag == K_SET:
                    _, k, name, senv = k
                    self.assign(name, senv, val)
                    val = UNSPEC
                elif tag == K_LET:
                    _, kk, what, rest, vals, env = k
                    vals = vals + (val,)
                    if rest:
                        k = (K_LET, kk, what, rest[1:], vals, env)
                        expr = rest[0]
                        ev = True
                    elif what[0] == "let":
                        env = Env(dict(zip(what[1], vals)), env)
                        expr, env, k = self.enter_body(what[2], env, kk)
                        ev = True
                    else:
                        # named let: the tag is bound in a scope of its own around the procedure
                        tenv = Env({what[1]: UNASSIGNED}, env)
                        clo = Closure(what[2], tenv)
                        tenv.vars[what[1]] = clo
                        expr, env, k, val, ev = self.apply(clo, vals, kk)
                elif tag == K_LETSTAR:
                    _, kk, name, rest, body, env = k
                    if name.name in KEYWORDS:
                        self.kw_shadow = True
                    env = Env({name: val}, env)
                    if rest:
                        k = (K_LETSTAR, kk, rest[0][0], rest[1:], body, env)
                        expr = rest[0][1]
                        ev = True
                    else:
                        expr, env, k = self.enter_body(body, Env({}, env), kk)
                        ev = True
                elif tag == K_LETREC:
                    _, kk, names, rest, vals, body, env = k
                    vals = vals + (val,)
                    if rest:
                        k = (K_LETREC, kk, names, rest[1:], vals, body, env)
                        expr = rest[0]
                        ev = True
                    else:
                        for nm, v in zip(names, vals):
                            env.vars[nm] = v
                        expr, env, k = self.enter_body(body, env, kk)
                        ev = True
                elif tag == K_LETRECSTAR:
                    _, kk, name, rest, body, env = k
                    env.vars[name] = val
                    if rest:
                        k = (K_LETRECSTAR, kk, rest[0][0], rest[1:], body, env)
                        expr = rest[0][1]
                        ev = True
                    else:
                        expr, env, k = self.enter_body(body, env, kk)
                        ev = True
                elif tag == K_COND:
                    _, kk, clauses, env = k
                    if val is UNSPEC:
                        raise Unspecified("test on an unspecified value")
                    clause = clauses.car
                    if val is not False:
                        body = clause.cdr
                        if body is NIL:
                            k = kk
                        elif body.car is S_ARROW:
                            k = (K_COND_ARROW, kk, val)
                            expr = body.cdr.car
                            ev = True
                        else:
                            if body.cdr is NIL:
                                k = kk
                            else:
                                k = (K_SEQ, kk, body.cdr, env)
                            expr = body.car
                            ev = True
                    else:
                        expr, env, k, val, ev = self.cond_step(clauses.cdr, env, kk)
                elif tag == K_COND_ARROW:
                    expr, env, k, val, ev = self.apply(val, (k[2],), k[1])
                elif tag == K_CASE:
                    _, kk, clauses, env = k
                    key = val
                    k = kk
                    val = UNSPEC
                    while clauses is not NIL:
                        clause = clauses.car
                        hit = clause.car is S_ELSE
                        if not hit:
                            d = clause.car
                            while d is not NIL:
                                if eqv(key, d.car):
                                    hit = True
                                    break
                                d = d.cdr
                        if hit:
                            body = clause.cdr
                            if body.car is S_ARROW:
                                k = (K_CASE_ARROW, kk, key)
                                expr = body.cdr.car
                            else:
                                if body.cdr is not NIL:
                                    k = (K_SEQ, kk, body.cdr, env)
                                expr = body.car
                            ev = True
                            break
                        clauses = clauses.cdr
                elif tag == K_CASE_ARROW:
                    expr, env, k, val, ev = self.apply(val, (k[2],), k[1])
                elif tag == K_AND:
                    _, kk, rest, env = k
                    if val is UNSPEC:
                        raise Unspecified("test on an unspecified value")
                    if val is False:
                        k = kk
                    else:
                        k = kk if rest.cdr is NIL else (K_AND, kk, rest.cdr, env)
                        expr = rest.car
                        ev = True
                elif tag == K_OR:
                    _, kk, rest, env = k
                    if val is UNSPEC:
                        raise Unspecified("test on an unspecified value")
                    if val is not False:
                        k = kk
                    else:
                        k = kk if rest.cdr is NIL else (K_OR, kk, rest.cdr, env)
                        expr = rest.car
                        ev = True
                elif tag == K_WHEN:
                    _, kk, positive, body, env = k
                    if val is UNSPEC:
                        raise Unspecified("test on an unspecified value")
                    k = kk
                    if (val is not False) == positive:
                        if body.cdr is not NIL:
                            k = (K_SEQ, kk, body.cdr, env)
                        expr = body.car
                        ev = True
                    else:
                        val = UNSPEC
                elif tag == K_QQ_CDR:
                    # val = value of the car; now the cdr of the template
                    _, kk, tcdr, depth, env = k
                    expr, env, k, val, ev = self.qq(tcdr, depth, env, (K_QQ_CONS, kk, val))
                elif tag == K_QQ_CONS:
                    val = Pair(k[2], val)
                    k = k[1]
                elif tag == K_QQ_WRAP:
                    val = Pair(k[2], Pair(val, NIL))
                    k = k[1]
                elif tag == K_QQ_VEC:
                    val = Vector(list_to_py(val))
                    k = k[1]
                elif tag == K_QQ_SPLICE:
                    # val = the list to splice; now the rest of the template
                    _, kk, tcdr, depth, env = k
                    expr, env, k, val, ev = self.qq(tcdr, depth, env, (K_QQ_APPEND, kk, val))
                elif tag == K_QQ_APPEND:
                    spl = k[2]
                    k = k[1]
                    if val is NIL and False:
                        val = spl
                    else:
                        items = []
                        while type(spl) is Pair:
                            items.append(spl.car)
                            spl = spl.cdr
                        if spl is not NIL:
                            raise SchemeError("unquote-splicing of an improper list")
                        val = py_to_list(items, val)
                elif tag == K_FORCE:
                    # val = result of the promise's thunk
                    _, kk, p, kind = k
                    box = p.box
                    if not box[0]:
                        if kind == "delay":
                            box[0], box[1] = True, val
                        else:
                            if type(val) is not Promise:
                                raise Unspecified("delay-force of a non-promise")
                            box[0], box[1] = val.box[0], val.box[1]
                            val.box = box
                    expr, env, k, val, ev = self.force(p, kk)
                elif tag == K_MAP:
                    _, kk, f, lists, acc = k
                    acc = acc + (val,)
                    expr, env, k, val, ev = self.map_step(f, lists, acc, kk)
                elif tag == K_FOREACH:
                    _, kk, f, lists = k
                    expr, env, k, val, ev = self.foreach_step(f, lists, kk)
                else:
                    raise AssertionError("bad continuation frame")
        finally:
            self.steps = steps

    # ------------------------------------------------------------------- helpers
    def define(self, name, env, val):
        if name.name in KEYWORDS:
            self.kw_shadow = True
        if type(val) is Closure and val.lam.name is None:
            pass
        env.vars[name] = val

    def bindings(self, bl):
        names, inits = [], []
        for b in list_to_py(bl, "binding list"):
            if type(b) is not Pair or type(b.car) is not Sym or type(b.cdr) is not Pair or b.cdr.cdr is not NIL:
                raise SchemeError("bad syntax: binding")
            if b.car.name in KEYWORDS:
                self.kw_shadow = True
            names.append(b.car)
            inits.append(b.cdr.car)
        return names, inits

    def enter_body(self, body, env, k):
        """evaluate a <body> in env: internal definitions get a scope of their own whose
        locations exist (unassigned) from the start, as for letrec* (R7RS 5.3.2)"""
        if length_of(body) < 1:
            raise SchemeError("bad syntax: empty body")
        defs = self.body_defines(body, env)
        if defs:
            env = Env(dict((d, UNASSIGNED) for d in defs), env)
        if body.cdr is not NIL:
            k = (K_SEQ, k, body.cdr, env)
        return body.car, env, k

    def check_cond(self, clauses):
        c = clauses
        while c is not NIL:
            cl = c.car
            n = length_of(cl) if type(cl) is Pair else -1
            if n < 1:
                raise SchemeError("bad syntax: cond clause")
            if cl.car is S_ELSE and not (self.kw_shadow and self.is_bound(S_ELSE, self.genv)):
                if c.cdr is not NIL or n < 2:
                    raise SchemeError("bad syntax: else clause")
            elif n >= 2 and cl.cdr.car is S_ARROW:
                if n != 3:
                    raise SchemeError("bad syntax: => clause")
            c = c.cdr

    def cond_step(self, clauses, env, k):
        """returns (expr, env, k, val, ev)"""
        if clauses is NIL:
            return None, env, k, UNSPEC, False
        cl = clauses.car
        if cl.car is S_ELSE:
            body = cl.cdr
            if body.cdr is not NIL:
                k = (K_SEQ, k, body.cdr, env)
            return body.car, env, k, None, True
        return cl.car, env, (K_COND, k, clauses, env), None, True

    def check_case(self, clauses):
        c = clauses
        while c is not NIL:
            cl = c.car
            n = length_of(cl) if type(cl) is Pair else -1
            if n < 2:
                raise SchemeError("bad syntax: case clause")
            if cl.car is S_ELSE:
                if c.cdr is not NIL:
                    raise SchemeError("bad syntax: else clause")
            elif length_of(cl.car) < 0:
                raise SchemeError("bad syntax: case data")
            if cl.cdr.car is S_ARROW and n != 3:
                raise SchemeError("bad syntax: => clause")
            c = c.cdr

    # ---------------------------------------------------------------- quasiquote
    def qq(self, t, depth, env, k):
        """R7RS 4.2.8.  returns (expr, env, k, val, ev)"""
        if type(t) is Pair:
            h = t.car
            if h is Q_UNQUOTE and type(t.cdr) is Pair and t.cdr.cdr is NIL:
                if depth == 1:
                    return t.cdr.car, env, k, None, True
                return self.qq(t.cdr.car, depth - 1, env, (K_QQ_WRAP, k, Q_UNQUOTE))
            if h is Q_QUASI and type(t.cdr) is Pair and t.cdr.cdr is NIL:
                return self.qq(t.cdr.car, depth + 1, env, (K_QQ_WRAP, k, Q_QUASI))
            if type(h) is Pair and h.car is Q_SPLICE and type(h.cdr) is Pair and h.cdr.cdr is NIL:
                if depth == 1:
                    return h.cdr.car, env, (K_QQ_SPLICE, k, t.cdr, depth, env), None, True
                # nested: keep the form, one level down
                return self.qq(h.cdr.car, depth - 1, env,
                               (K_QQ_WRAP, (K_QQ_CDR, k, t.cdr, depth, env), Q_SPLICE))
            if h is Q_SPLICE and depth == 1:
                raise SchemeError("unquote-splicing in a non-list context")
            return self.qq(h, depth, env, (K_QQ_CDR, k, t.cdr, depth, env))
        if type(t) is Vector:
            return self.qq(py_to_list(t.items), depth, env, (K_QQ_VEC, k))
        return None, env, k, t, False

    # --------------------------------------------------------------------- apply
    def apply(self, f, args, k):
        """returns (expr, env, k, val, ev)"""
        t = type(f)
        if t is Closure:
            lam = f.lam
            n = len(args)
            if lam.rest is None:
                if n != lam.nreq:
                    raise SchemeError("wrong number of arguments")
                frame = dict(zip(lam.req, args))
            else:
                if n < lam.nreq:
                    raise SchemeError("wrong number of arguments")
                frame = dict(zip(lam.req, args))
                frame[lam.rest] = py_to_list(args[lam.nreq:])
            expr, env, k = self.enter_body(lam.body, Env(frame, f.env), k)
            return expr, env, k, None, True
        if t is Primitive:
            n = len(args)
            if n < f.lo or (f.hi is not None and n > f.hi):
                raise SchemeError("wrong number of arguments to " + f.name)
            if f.special is None:
                return None, None, k, f.fn(*args), False
            return f.special(self, args, k)
        if t is Continuation:
            if len(args) == 1:
                ev = self.events
                ev.add("continuation-invoked")
                kk = k
                while kk is not None and kk is not f.k:
                    kk = kk[1]
                if kk is not f.k:
                    ev.add("continuation-reentered")       # its extent had been left: not an escape
                if f.serial != self.serial:
                    ev.add("continuation-from-earlier-form")
                return None, None, f.k, args[0], False
            if len(args) == 0:
                raise SchemeError("continuation invoked with no value")
            raise Unspecified("continuation invoked with several values")
        raise SchemeError("application of a non-procedure")

    def force(self, p, k):
        if type(p) is not Promise:
            raise Unspecified("force of a non-promise")
        box = p.box
        if box[0]:
            return None, None, k, box[1], False
        kind, expr, env = box[1]
        return expr, env, (K_FORCE, k, p, kind), None, True

    def map_step(self, f, lists, acc, k):
        if any(l is NIL for l in lists):
            return None, None, k, py_to_list(acc), False
        for l in lists:
            if type(l) is not Pair:
                raise SchemeError("map: not a list")
        args = tuple(l.car for l in lists)
        rest = tuple(l.cdr for l in lists)
        return self.apply(f, args, (K_MAP, k, f, rest, acc))

    def foreach_step(self, f, lists, k):
        if any(l is NIL for l in lists):
            return None, None, k, UNSPEC, False
        for l in lists:
            if type(l) is not Pair:
                raise SchemeError("for-each: not a list")
        args = tuple(l.car for l in lists)
        rest = tuple(l.cdr for l in lists)
        return self.apply(f, args, (K_FOREACH, k, f, rest))

    # ------------------------------------------------------------------ sessions
    def eval_datum(self, d):
        """one canonical result (unescaped): 'OK <write>' | 'ERR' | 'ERR user <payload>'"""
        try:
            v = self.eval_toplevel(d)
            return "OK " + show(v, True, self.cfg.max_print)
        except SchemeError:
            return "ERR"
        except UserError as e:
            return "ERR user " + e.payload
        except RecursionError:
            raise Limit("python recursion")

    def eval_text(self, text):
        """results of one form text, datum by datum; stops at a read error"""
        out = []
        r = Reader(text)
        while True:
            try:
                if r.at_end():
                    if not out:
                        out.append("ERR incomplete")
                    break
                d = r.read()
            except ReadError as e:
                out.append("ERR incomplete" if e.incomplete else "ERR")
                break
            out.append(self.eval_datum(d))
        return out


# ------------------------------------------------------------------------ primitives

def eqv(a, b):
    if a is b:
        return True
    ta = type(a)
    if ta is not type(b):
        return False
    if ta is int or ta is bool:
        return a == b
    if ta is Char:
        return a.cp == b.cp
    if ta is MString:
        if a.s == b.s and (a.literal or b.literal or a.s == ""):
            raise Unspecified("eqv? on equal string constants / empty strings")
        return False
    if ta is Vector and not a.items and not b.items:
        raise Unspecified("eqv? on empty vectors")
    if ta is UnspecT:
        return True
    return False


def equal(a, b, budget):
    stack = [(a, b)]
    while stack:
        budget -= 1
        if budget < 0:
            raise Limit("equal?")
        a, b = stack.pop()
        if a is b:
            continue
        ta = type(a)
        if ta is not type(b):
            return False
        if ta is Pair:
            stack.append((a.cdr, b.cdr))
            stack.append((a.car, b.car))
        elif ta is Vector:
            if len(a.items) != len(b.items):
                return False
            stack.extend(zip(a.items, b.items))
        elif ta is MString:
            if a.s != b.s:
                return False
        elif ta is int or ta is bool:
            if a != b:
                return False
        elif ta is Char:
            if a.cp != b.cp:
                return False
        else:
            return False
    return True


def _no_unspec(*xs):
    for x in xs:
        if x is UNSPEC:
            raise Unspecified("an unspecified value is inspected")
        if type(x) is Promise:
            raise Unspecified("a promise is inspected (R7RS: promises need not be disjoint from other types)")


def _int(x):
    if type(x) is not int:
        raise SchemeError("not a number")
    return x


def _pair(x):
    if type(x) is not Pair:
        raise SchemeError("not a pair")
    return x


def _mutable(x):
    if x.literal:
        raise Unspecified("mutation of a literal constant (R7RS: it is an error)")
    return x


def _index(x):
    if type(x) is not int or x < 0:
        raise SchemeError("not an index")
    return x


def _proper(x, budget=100000):
    out = []
    while type(x) is Pair:
        out.append(x.car)
        x = x.cdr
        budget -= 1
        if budget < 0:
            raise Limit("cyclic list")
    if x is not NIL:
        raise SchemeError("not a proper list")
    return out


def install_primitives(m):
    g = m.globals

    def prim(name, lo, hi):
        def deco(fn):
            g[S(name)] = Primitive(name, fn, lo, hi)
            return fn
        return deco

    def special(name, lo, hi):
        def deco(fn):
            g[S(name)] = Primitive(name, None, lo, hi, fn)
            return fn
        return deco

    prim("car", 1, 1)(lambda p: _pair(p).car)
    prim("cdr", 1, 1)(lambda p: _pair(p).cdr)
    prim("cons", 2, 2)(lambda a, d: Pair(a, d))

    @prim("set-car!", 2, 2)
    def _(p, v):
        _mutable(_pair(p)).car = v
        return UNSPEC

    @prim("set-cdr!", 2, 2)
    def _(p, v):
        _mutable(_pair(p)).cdr = v
        return UNSPEC

    for nm, path in (("caar", "aa"), ("cadr", "da"), ("cdar", "ad"), ("cddr", "dd")):
        def mk(path):
            def f(x):
                for c in path:
                    x = _pair(x).car if c == "a" else _pair(x).cdr
                return x
            return f
        prim(nm, 1, 1)(mk(path))

    def pred(name, test):
        def f(x):
            _no_unspec(x)
            return test(x)
        prim(name, 1, 1)(f)
    pred("null?", lambda x: x is NIL)
    pred("pair?", lambda x: type(x) is Pair)
    pred("vector?", lambda x: type(x) is Vector)
    pred("symbol?", lambda x: type(x) is Sym)
    pred("string?", lambda x: type(x) is MString)
    pred("char?", lambda x: type(x) is Char)
    pred("boolean?", lambda x: type(x) is bool)
    pred("procedure?", lambda x: type(x) in (Closure, Primitive, Continuation))
    pred("number?", lambda x: type(x) is int)
    pred("integer?", lambda x: type(x) is int)
    pred("not", lambda x: x is False)

    @prim("list?", 1, 1)
    def _(x):
        _no_unspec(x)
        seen = 0
        while type(x) is Pair:
            x = x.cdr
            seen += 1
            if seen > 100000:
                raise Limit("cyclic list")
        return x is NIL

    @prim("eq?", 2, 2)
    def _(a, b):
        _no_unspec(a, b)
        if (type(a) is int and type(b) is int) or (type(a) is Char and type(b) is Char):
            if not m.cfg.eq_numbers_eqv:
                raise Unspecified("eq? on numbers or characters")
        return eqv(a, b)

    @prim("eqv?", 2, 2)
    def _(a, b):
        _no_unspec(a, b)
        return eqv(a, b)

    @prim("equal?", 2, 2)
    def _(a, b):
        _no_unspec(a, b)
        return equal(a, b, 100000)

    @prim("+", 0, None)
    def _(*xs):
        r = 0
        for x in xs:
            r += _int(x)
        return r

    @prim("*", 0, None)
    def _(*xs):
        r = 1
        for x in xs:
            r *= _int(x)
        return r

    @prim("-", 1, None)
    def _(*xs):
        if type(xs[0]) is not int:
            m.events.add("minus-first-operand-not-a-number")
        for x in xs:
            _int(x)
        if len(xs) == 1:
            return -xs[0]
        r = xs[0]
        for x in xs[1:]:
            r -= x
        return r

    def compare(name, rel):
        def f(*xs):
            for x in xs:
                if type(x) is not int:
                    m.events.add("comparison-of-a-non-number")
                _int(x)
            if len(xs) < 2:
                raise Unspecified("comparison with fewer than two arguments")
            return all(rel(a, b) for a, b in zip(xs, xs[1:]))
        prim(name, 1, None)(f)
    compare("=", lambda a, b: a == b)
    compare("<", lambda a, b: a < b)
    compare(">", lambda a, b: a > b)
    compare("<=", lambda a, b: a <= b)
    compare(">=", lambda a, b: a >= b)

    prim("list", 0, None)(lambda *xs: py_to_list(xs))
    prim("length", 1, 1)(lambda l: len(_proper(l)))

    @prim("append", 0, None)
    def _(*ls):
        if not ls:
            return NIL
        res = ls[-1]
        for l in reversed(ls[:-1]):
            res = py_to_list(_proper(l), res)
        return res

    prim("reverse", 1, 1)(lambda l: py_to_list(list(reversed(_proper(l)))))

    def mem(name, same):
        def f(x, l):
            _no_unspec(x)
            n = 0
            while type(l) is Pair:
                if same(l.car, x):
                    return l
                l = l.cdr
                n += 1
                if n > 100000:
                    raise Limit("cyclic list")
            if l is not NIL:
                raise SchemeError("not a proper list")
            return False
        prim(name, 2, 2)(f)
    mem("memq", eqv)
    mem("memv", eqv)
    mem("member", lambda a, b: equal(a, b, 100000))

    def ass(name, same):
        def f(x, l):
            _no_unspec(x)
            n = 0
            while type(l) is Pair:
                e = l.car
                if type(e) is not Pair:
                    raise Unspecified("association list element is not a pair (R7RS: it is an error)")
                if same(e.car, x):
                    return e
                l = l.cdr
                n += 1
                if n > 100000:
                    raise Limit("cyclic list")
            if l is not NIL:
                raise SchemeError("not a proper list")
            return False
        prim(name, 2, 2)(f)
    ass("assq", eqv)
    ass("assv", eqv)
    ass("assoc", lambda a, b: equal(a, b, 100000))

    @prim("list-tail", 2, 2)
    def _(l, k):
        for _i in range(_index(k)):
            l = _pair(l).cdr
        return l

    @prim("list-ref", 2, 2)
    def _(l, k):
        for _i in range(_index(k)):
            l = _pair(l).cdr
        return _pair(l).car

    prim("vector", 0, None)(lambda *xs: Vector(list(xs)))

    def _vec(v):
        if type(v) is not Vector:
            raise SchemeError("not a vector")
        return v

    @prim("vector-ref", 2, 2)
    def _(v, k):
        _vec(v)
        if _index(k) >= len(v.items):
            raise SchemeError("index out of range")
        return v.items[k]

    @prim("vector-set!", 3, 3)
    def _(v, k, x):
        _vec(v)
        if _index(k) >= len(v.items):
            raise SchemeError("index out of range")
        _mutable(v).items[k] = x
        return UNSPEC

    prim("vector-length", 1, 1)(lambda v: len(_vec(v).items))

    @prim("make-vector", 1, 2)
    def _(n, fill=UNSPEC):
        if _index(n) > 10000:
            raise Limit("vector size")
        return Vector([fill] * n)

    @prim("display", 1, 1)
    def _(x):
        m.log.append("D:" + show(x, False, m.cfg.max_print))
        return UNSPEC

    @prim("write", 1, 1)
    def _(x):
        m.log.append("W:" + show(x, True, m.cfg.max_print))
        return UNSPEC

    @prim("newline", 0, 0)
    def _():
        m.log.append("D:\n")
        return UNSPEC

    @prim("error", 1, None)
    def _(*xs):
        raise UserError(" ".join(show(x, True, m.cfg.max_print) for x in xs))

    # ---- procedures that need the machine
    @special("apply", 1, None)
    def _(m, args, k):
        f = args[0]
        if len(args) == 1:
            raise SchemeError("apply without an argument list")
        lst = _proper(args[-1])
        return m.apply(f, tuple(args[1:-1]) + tuple(lst), k)

    def callcc(m, args, k):
        return m.apply(args[0], (Continuation(k, m.serial),), k)
    special("call/cc", 1, 1)(callcc)
    special("call-with-current-continuation", 1, 1)(callcc)

    @special("eval", 1, 2)
    def _(m, args, k):
        if len(args) == 2:
            raise Unspecified("eval with an environment argument")
        m.check_syntax(args[0])
        return args[0], m.genv, k, None, True

    @special("force", 1, 1)
    def _(m, args, k):
        return m.force(args[0], k)

    @special("map", 2, None)
    def _(m, args, k):
        return m.map_step(args[0], tuple(args[1:]), (), k)

    @special("for-each", 2, None)
    def _(m, args, k):
        return m.foreach_step(args[0], tuple(args[1:]), k)

    g[S("void")] = UNSPEC


# -------------------------------------------------------------------- session runner

def run_session(forms, config=None):
    """forms: list of texts.  Returns ('OK', line) with the expected canonical line of wire
    interface 70 (WILD marks wildcard data, PROC procedure prefixes), or ('LIMIT', why) /
    ('UNSPEC', why) when the session cannot serve as a specification."""
    return run_session_ex(forms, config)[:2]


def run_session_ex(forms, config=None):
    """as run_session, plus the sorted list of dynamic events the machine noted"""
    m = Machine(config)
    st, line = _run_session(m, forms)
    return st, line, sorted(m.events)


def _run_session(m, forms):
    parts = ["SESSION"]
    try:
        for f in forms:
            parts.append(" |")
            for r in m.eval_text(f):
                parts.append(" " + esc(r))
        parts.append(" LOG")
        for l in m.log:
            parts.append(" " + esc(l))
    except Limit as e:
        return "LIMIT", str(e)
    except Unspecified as e:
        return "UNSPEC", str(e)
    except RecursionError:
        return "LIMIT", "python recursion"
    return "OK", "".join(parts)


# ------------------------------------------------------------- comparing result lines

def _skip_datum(s, j):
    """index after one printed datum starting at s[j] (printed by the implementation)"""
    n = len(s)
    if j >= n:
        return -1
    c = s[j]
    if c == "'":
        return _skip_datum(s, j + 1)
    if c == "(" or s.startswith("#(", j):
        j += 1 if c == "(" else 2
        depth = 1
        while j < n and depth > 0:
            c = s[j]
            if c == '"':
                j = _skip_string(s, j)
                if j < 0:
                    return -1
                continue
            if s.startswith("#\\u{5c}", j):
                j = _skip_char(s, j)
                continue
            if s.startswith("#<procedure", j) or s.startswith("#<continuation", j):
                j = _skip_proc(s, j)
                if j < 0:
                    return -1
                continue
            if c == "(":
                depth += 1
            elif c == ")":
                depth -= 1
            j += 1
        return j if depth == 0 else -1
    if c == '"':
        return _skip_string(s, j)
    if s.startswith("#\\u{5c}", j):
        return _skip_char(s, j)
    if s.startswith("#<procedure", j) or s.startswith("#<continuation", j):
        return _skip_proc(s, j)
    while j < n and s[j] not in " ()":
        j += 1
    return j


def _skip_string(s, j):
    j += 1
    n = len(s)
    while j < n:
        if s.startswith("\\u{5c}", j):      # an escaped backslash: skip it and the escaped character
            j += 6
            if s.startswith("\\u{", j):
                j = s.index("}", j) + 1
            else:
                j += 1
            continue
        if s[j] == '"':
            return j + 1
        j += 1
    return -1


def _skip_char(s, j):
    # "#\u{5c}" then a name or a single (possibly escaped) character
    j += 7
    n = len(s)
    if j < n and s.startswith("\\u{", j):
        return s.index("}", j) + 1
    j += 1
    while j < n and s[j] not in " ()":
        j += 1
    return j


def _skip_proc(s, j):
    """#<continuation> | #<procedure:name> | #<procedure:(λ (formals))>"""
    if s.startswith("#<continuation>", j):
        return j + len("#<continuation>")
    j += len("#<procedure")
    n = len(s)
    if j < n and s[j] == ":":
        j += 1
    if j < n and s[j] == "(":
        depth = 0
        while j < n:
            if s[j] == "(":
                depth += 1
            elif s[j] == ")":
                depth -= 1
                if depth == 0:
                    j += 1
                    break
            j += 1
        return j + 1 if j < n and s[j] == ">" else -1
    # a name: ends with '>' before a delimiter
    k = j
    while k < n and s[k] not in " ()":
        k += 1
    return k if k > j and s[k - 1] == ">" else (k if s[j - 1:k].endswith(">") else -1)


def match_line(expected, actual):
    """does the implementation's line agree with the expected pattern?"""
    i = j = 0
    ne, na = len(expected), len(actual)
    while i < ne:
        c = expected[i]
        if c == WILD:
            j = _skip_datum(actual, j)
            if j < 0:
                return False
            i += 1
        elif c == "#" and expected.startswith(PROC, i):
            if not (actual.startswith("#<procedure", j) or actual.startswith("#<continuation", j)):
                return False
            j = _skip_proc(actual, j)
            if j < 0:
                return False
            i += len(PROC)
        else:
            if j >= na or actual[j] != c:
                return False
            i += 1
            j += 1
    return j == na


def first_difference(expected, actual):
    """readable position of the first mismatch, by top-level result tokens"""
    pe = expected.replace(WILD, "<any>")
    return "expected by R7RS: %s" % pe[:600]


if __name__ == "__main__":
    forms = sys.argv[1:]
    st, line = run_session(forms)
    print(st, line.replace(WILD, "<any>"))
